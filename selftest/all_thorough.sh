#!/bin/sh
# runs every check's thorough tier in turn; prints one summary line per check (used through `vp run`)
cd "$(dirname "$0")/.."
for i in $(seq -w 1 31); do
  c="C$i"
  start=$(date +%s)
  out=$(./check $c --tier thorough 2>&1 | grep -v "Still waiting")
  rc=$?
  echo "$out" | grep "VIOLATION\|HARNESS\|key=" | cut -c1-300
  echo "$out" | tail -1 | cut -c1-260
  echo "== $c exit=$(echo "$out" | grep -c '^VIOLATION') viol-lines, $(( $(date +%s) - start )) s"
done
