#!/bin/sh
# all_thorough.sh [ids...]: runs the thorough tier of the given checks (default: all 31) in turn; one summary line per check
# (used through `vp run`)
cd "$(dirname "$0")/.."
ids="$*"
[ -z "$ids" ] && ids=$(for i in $(seq -w 1 31); do echo "C$i"; done)
for c in $ids; do
  start=$(date +%s)
  out=$(./check $c --tier thorough 2>&1 | grep -v "Still waiting")
  echo "$out" | grep "VIOLATION\|HARNESS\|key=" | cut -c1-300
  echo "$out" | tail -1 | cut -c1-260
  echo "== $c $(echo "$out" | grep -c '^VIOLATION') viol-lines, $(echo "$out" | grep -c '^HARNESS') harness-errors, $(( $(date +%s) - start )) s"
done
