#!/bin/sh
# all_quick.sh [seed...]: runs every check's quick tier in turn for each VERIF_SEED given (default 0 1 2 3); one line per check.
# Exit 0 iff every run exited 0 without a VIOLATION / HARNESS-ERROR line.
cd "$(dirname "$0")/.."
seeds="${*:-0 1 2 3}"
bad=0
for s in $seeds; do
  for i in $(seq -w 1 31); do
    c="C$i"
    start=$(date +%s)
    out=$(VERIF_SEED=$s ./check $c --tier quick 2>&1)
    rc=$?
    nv=$(echo "$out" | grep -c '^VIOLATION\|^HARNESS')
    if [ $rc -ne 0 ] || [ $nv -ne 0 ]; then bad=1; echo "$out" | grep "VIOLATION\|HARNESS\|key=" | cut -c1-300; fi
    echo "seed=$s $c rc=$rc alarms=$nv $(( $(date +%s) - start ))s :: $(echo "$out" | tail -1 | cut -c1-200)"
  done
done
exit $bad
