#!/venv/bin/python
"""Run the pinned baseline test command on a tree (default /repo) and compare
with /root/.vp/BASELINE.json stable_pass. Exit 0 iff every stable test passes.
usage: baseline.py [repo_dir]
"""
import json, os, subprocess, sys, tempfile, xml.etree.ElementTree as ET

def main():
    import time
    for attempt in range(4):
        rc, missing = once()
        # the suite uses fixed TCP ports: two baselines running at the same time make test_infra_communication fail
        if rc == 0 or not all("test_infra_communication" in m for m in missing):
            return rc
        print("  (only port-bound tests failed: another baseline is probably running; retrying)")
        time.sleep(15 + 20 * attempt)
    return rc


def once():
    repo = sys.argv[1] if len(sys.argv) > 1 else "/repo"
    base = json.load(open("/root/.vp/BASELINE.json"))
    stable = set(base["stable_pass"])
    fd, junit = tempfile.mkstemp(suffix=".xml", prefix="vfbase_")
    os.close(fd)
    env = dict(os.environ)
    env.pop("PYDCOP_VERIF", None)
    env["PYTHONDONTWRITEBYTECODE"] = "1"
    # the repo is installed editable => to test another tree put it first on the path
    env["PYTHONPATH"] = repo
    cmd = ["/venv/bin/python", "-m", "pytest", "-ra", "-q", "-p", "no:cacheprovider",
           "--timeout=900", "--continue-on-collection-errors", "--junitxml=" + junit]
    try:
        # the whole suite takes ~1 min; a rare hang of a thread-based test (seen under heavy machine load) is retried
        p = subprocess.run(cmd, cwd=repo, env=env, stdout=subprocess.PIPE, stderr=subprocess.STDOUT, text=True, timeout=600)
    except subprocess.TimeoutExpired:
        print("baseline: pytest did not finish within 600 s (hung test); will retry")
        try:
            os.unlink(junit)
        except OSError:
            pass
        return 1, ["<hang> test_infra_communication"]
    passed = set()
    try:
        for tc in ET.parse(junit).getroot().iter("testcase"):
            if not any(ch.tag in ("failure", "error", "skipped") for ch in tc):
                passed.add(tc.get("classname") + "::" + tc.get("name"))
    finally:
        os.unlink(junit)
    missing = sorted(stable - passed)
    print(f"baseline: {len(stable & passed)}/{len(stable)} stable tests pass; {len(passed - stable)} extra passing")
    for m in missing[:40]:
        print("  NOT PASSING:", m)
    if missing:
        print(p.stdout[-3000:])
    return (1 if missing else 0), missing

if __name__ == "__main__":
    sys.exit(main())
