#!/venv/bin/python
"""run_seeds.py [ids...]: apply every archived seeded change (/verif/seeded/<id>/patch.diff) to a fresh scratch worktree of /repo's HEAD,
run the property's quick check against it (VF_REPO), and print a table: caught (exit 1 + VIOLATION) or missed. Worktrees are removed."""
import json, os, subprocess, sys

def sh(cmd, **kw):
    return subprocess.run(cmd, shell=True, stdout=subprocess.PIPE, stderr=subprocess.STDOUT, text=True, **kw)

def main():
    ids = sys.argv[1:] or sorted(os.listdir("/verif/seeded"))
    rows = []
    for sid in ids:
        d = f"/verif/seeded/{sid}"
        meta = json.load(open(f"{d}/meta.json"))
        prop = meta["property"]
        chk = meta.get("check_with", prop)  # a few seeds are caught by the check of a neighbouring property (same mechanism)
        wt = f"/tmp/seedrun_{sid}"
        sh(f"git -C /repo worktree remove --force {wt}")
        sh(f"git -C /repo worktree add --detach {wt} HEAD")
        r = sh(f"git -C {wt} apply {d}/patch.diff")
        if r.returncode != 0:
            rows.append((sid, prop, "PATCH-DOES-NOT-APPLY", ""))
            sh(f"git -C /repo worktree remove --force {wt}")
            continue
        c = sh(f"cd /verif && VF_REPO={wt} ./check {chk} --tier quick", timeout=3600)
        viol = [l for l in c.stdout.splitlines() if l.startswith("VIOLATION")]
        keys = [l.strip()[4:].split(" ")[0] for l in c.stdout.splitlines() if l.strip().startswith("key=")]
        rows.append((sid, prop if chk == prop else f"{prop} (by {chk})", "caught" if c.returncode == 1 and viol else f"MISSED(exit {c.returncode})", ", ".join(keys[:3])))
        sh(f"git -C /repo worktree remove --force {wt}")
        print(rows[-1], flush=True)
    print("\n| seed | property | quick check | first violation keys |\n|---|---|---|---|")
    for r in rows:
        print("| " + " | ".join(r) + " |")
    return 0 if all(r[2] == "caught" for r in rows) else 1

if __name__ == "__main__":
    sys.exit(main())
