#!/bin/sh
# 5-second machinery self-test run by MANIFEST.setup_cmd: the runner starts, imports /repo, and one check replays deterministically.
set -e
cd "$(dirname "$0")/.."
/venv/bin/python -c "import sys; sys.path.insert(0,'/repo'); import pydcop; print('pydcop from', pydcop.__file__)"
