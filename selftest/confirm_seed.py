#!/venv/bin/python
"""confirm_seed.py <worktree with the change applied> <agent out dir> <property> [seed-id]

Confirms a seeded property-breaking change independently of its author and archives it under /verif/seeded/<id>/:
  1. the stable baseline (649 tests) still passes on the changed tree,
  2. the demonstration fails on the changed tree and passes on the unchanged tree (git stash),
  3. runs the property's quick check against the changed tree (VF_REPO) and records whether it raises a VIOLATION.
"""
import json, os, shutil, subprocess, sys, time

def sh(cmd, **kw):
    return subprocess.run(cmd, shell=True, stdout=subprocess.PIPE, stderr=subprocess.STDOUT, text=True, **kw)

def main():
    src_wt, out, prop = sys.argv[1], sys.argv[2], sys.argv[3]
    sid = sys.argv[4] if len(sys.argv) > 4 else prop + "_a"
    dest = f"/verif/seeded/{sid}"
    os.makedirs(dest, exist_ok=True)
    diff = sh(f"git -C {src_wt} diff").stdout if os.path.isdir(src_wt) else open(f"{out}/patch.diff").read()
    if not diff.strip():
        diff = open(f"{out}/patch.diff").read()
    open(f"{dest}/patch.diff", "w").write(diff)
    # always confirm on a fresh worktree of /repo's CURRENT HEAD (the author's worktree may predate later fix: commits)
    wt = f"/tmp/seedwt_{sid}"
    sh(f"git -C /repo worktree remove --force {wt}")
    r = sh(f"git -C /repo worktree add --detach {wt} HEAD")
    assert r.returncode == 0, r.stdout
    r = sh(f"git -C {wt} apply {dest}/patch.diff")
    if r.returncode != 0:
        print("patch does not apply to current HEAD:", r.stdout); sh(f"git -C /repo worktree remove --force {wt}"); return 2
    try:
        return confirm(wt, out, prop, sid, dest)
    finally:
        sh(f"git -C /repo worktree remove --force {wt}")


def confirm(wt, out, prop, sid, dest):
    meta = {"seed_id": sid, "property": prop, "base_commit": sh(f"git -C {wt} rev-parse HEAD").stdout.strip(), "ran": {}}
    env = dict(os.environ, PYTHONPATH=wt, PYTHONDONTWRITEBYTECODE="1", PYTHONWARNINGS="ignore")
    demo = f"{out}/demo.py"
    if os.path.abspath(out) != os.path.abspath(dest):
        shutil.copy(demo, f"{dest}/demo.py")
    if os.path.abspath(out) != os.path.abspath(dest) and os.path.exists(f"{out}/notes.md"):
        shutil.copy(f"{out}/notes.md", f"{dest}/notes.md")
    # 1 baseline (retry once: fixed ports clash when several baselines run at the same time)
    for attempt in range(3):
        b = sh(f"/venv/bin/python /verif/selftest/baseline.py {wt}")
        line = [l for l in b.stdout.splitlines() if l.startswith("baseline:")]
        meta["ran"]["baseline_with_change"] = line[-1] if line else b.stdout[-300:]
        if b.returncode == 0:
            break
        time.sleep(20)
    ok_base = b.returncode == 0
    # 2 demo
    d1 = subprocess.run(["/venv/bin/python", demo], env=env, stdout=subprocess.PIPE, stderr=subprocess.STDOUT, text=True, cwd=out, timeout=900)
    # NOT git stash: the stash is shared by all worktrees of a repository
    r = sh(f"git -C {wt} apply -R {dest}/patch.diff")
    assert r.returncode == 0, r.stdout
    try:
        d0 = subprocess.run(["/venv/bin/python", demo], env=env, stdout=subprocess.PIPE, stderr=subprocess.STDOUT, text=True, cwd=out, timeout=900)
    finally:
        r = sh(f"git -C {wt} apply {dest}/patch.diff")
        assert r.returncode == 0, r.stdout
    meta["ran"]["demo_with_change"] = {"exit": d1.returncode, "tail": d1.stdout.strip()[-300:]}
    meta["ran"]["demo_without_change"] = {"exit": d0.returncode, "tail": d0.stdout.strip()[-300:]}
    ok_demo = d1.returncode != 0 and d0.returncode == 0
    # 3 the check
    c = sh(f"cd /verif && VF_REPO={wt} ./check {prop} --tier quick", timeout=3000)
    viol = [l for l in c.stdout.splitlines() if l.startswith("VIOLATION")]
    keys = [l.strip() for l in c.stdout.splitlines() if l.strip().startswith("key=")]
    meta["ran"]["quick_check_on_changed_tree"] = {"exit": c.returncode, "violations": len(viol), "keys": [k[:200] for k in keys[:6]]}
    meta["caught_by_quick"] = c.returncode == 1 and bool(viol)
    meta["confirmed"] = ok_base and ok_demo
    notes = open(f"{dest}/notes.md").read() if os.path.exists(f"{dest}/notes.md") else ""
    meta["needs_to_manifest"] = "see notes.md"
    json.dump(meta, open(f"{dest}/meta.json", "w"), indent=1)
    print(json.dumps(meta, indent=1))
    return 0 if meta["confirmed"] else 1

if __name__ == "__main__":
    sys.exit(main())
