"""Small-scope instance generators shared by the algorithm checks.

An *instance spec* is plain JSON-able data:
  {"vars": {name: [domain values]}, "costs": {name: {value: cost}} (optional),
   "cons": [{"name": c, "scope": [names], "table": nested list indexed in scope order}],
   "mode": "min"|"max", "initial": {name: value} (optional)}
`build_dcop(spec)` turns it into real pyDCOP objects; `ref_cost` / `brute_force` are the reference model.
"""
import itertools

import numpy as np


def build_dcop(spec):
    from pydcop.dcop.dcop import DCOP
    from pydcop.dcop.objects import Domain, Variable, VariableWithCostDict
    from pydcop.dcop.relations import NAryMatrixRelation

    dcop = DCOP("vf", objective=spec.get("mode", "min"))
    variables = {}
    for name, values in spec["vars"].items():
        dom = Domain("d_" + name, "vf", list(values))
        init = spec.get("initial", {}).get(name)
        costs = spec.get("costs", {}).get(name)
        if costs is not None:
            v = VariableWithCostDict(name, dom, {val: costs[i] for i, val in enumerate(values)}, initial_value=init)
        else:
            v = Variable(name, dom, initial_value=init)
        variables[name] = v
        dcop.add_variable(v)
    for c in spec["cons"]:
        scope = [variables[n] for n in c["scope"]]
        m = np.array(c["table"], dtype=c.get("dtype", "float64") if _has_float(c["table"]) else "int64")
        dcop.add_constraint(NAryMatrixRelation(scope, m, name=c["name"]))
    return dcop, variables


def _has_float(t):
    if isinstance(t, (list, tuple)):
        return any(_has_float(x) for x in t)
    return isinstance(t, float) or abs(t) >= 2 ** 62


def ref_cost(spec, assignment, with_var_costs=True):
    """Reference: plain loops. Sum of constraint tables plus variables' own costs."""
    total = 0
    for c in spec["cons"]:
        t = c["table"]
        for n in c["scope"]:
            t = t[spec["vars"][n].index(assignment[n])]
        total += t
    if with_var_costs:
        for n, costs in spec.get("costs", {}).items():
            total += costs[spec["vars"][n].index(assignment[n])]
    return total


def assignments(spec):
    names = sorted(spec["vars"])
    for vals in itertools.product(*[spec["vars"][n] for n in names]):
        yield dict(zip(names, vals))


def brute_force(spec):
    """(optimal cost, list of optimal assignments) for spec['mode']."""
    best, arg = None, []
    mx = spec.get("mode", "min") == "max"
    for a in assignments(spec):
        c = ref_cost(spec, a)
        if best is None or (c > best if mx else c < best):
            best, arg = c, [a]
        elif c == best:
            arg.append(a)
    return best, arg


def better(a, b, mode):
    return a > b if mode == "max" else a < b


def close(a, b):
    if a == b:
        return True
    try:
        return abs(a - b) <= 1e-9 * max(1, abs(a), abs(b))
    except (TypeError, OverflowError):
        return False


# ---------------------------------------------------------------- shapes


def shapes(n, max_cons, max_arity=3, min_arity=1, connected_only=False):
    """All constraint hyper-graphs (sets of distinct scopes) over variables v0..v{n-1}, up to max_cons scopes."""
    names = [f"v{i}" for i in range(n)]
    scopes = []
    for k in range(min_arity, max_arity + 1):
        scopes.extend(itertools.combinations(names, k))
    out = []
    for r in range(0, max_cons + 1):
        for combo in itertools.combinations(scopes, r):
            out.append([list(s) for s in combo])
    return names, out


def tables_01(arity, d, values=(0, 1)):
    """All tables of the given arity over `values` (nested lists)."""
    size = d ** arity
    for flat in itertools.product(values, repeat=size):
        yield _nest(list(flat), arity, d)


def _nest(flat, arity, d):
    if arity == 0:
        return flat[0]
    if arity == 1:
        return list(flat)
    step = len(flat) // d
    return [_nest(flat[i * step:(i + 1) * step], arity - 1, d) for i in range(d)]


T3_BIN = [
    [[0, 1], [1, 0]],  # differ is bad? (tie structure: two optima)
    [[1, 0], [0, 1]],
    [[0, 2], [5, 1]],  # unique optimum
    [[2, 2], [2, 2]],  # constant
    [[5, 1], [1, 0]],
    [[1, 5], [0, 2]],
]


def table_menu(arity, d, menu="T3"):
    """A fixed small menu of tables over {0,1,2,5} for the given shape."""
    if menu == "T01":
        return list(tables_01(arity, d))
    if arity == 2 and d == 2:
        return T3_BIN
    vals = [0, 1, 2, 5]
    size = d ** arity
    out = []
    # deterministic 'spread' tables: rotate the value list with different strides
    for stride, off in [(1, 0), (3, 1), (1, 2), (0, 2), (2, 3), (3, 3)]:
        flat = [vals[(off + i * stride + (i // d)) % 4] for i in range(size)]
        out.append(_nest(flat, arity, d))
    return out


def components(spec):
    names = sorted(spec["vars"])
    parent = {n: n for n in names}

    def find(x):
        while parent[x] != x:
            x = parent[x]
        return x

    for c in spec["cons"]:
        for n in c["scope"][1:]:
            parent[find(n)] = find(c["scope"][0])
    comps = {}
    for n in names:
        comps.setdefault(find(n), []).append(n)
    return list(comps.values())


def neighbors(spec):
    nb = {n: set() for n in spec["vars"]}
    for c in spec["cons"]:
        for a in c["scope"]:
            for b in c["scope"]:
                if a != b:
                    nb[a].add(b)
    return nb
