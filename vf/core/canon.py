"""Canonical forms of live pyDCOP objects for state hashing.

canon(x) returns a nested tuple of plain hashable data. Dicts and sets are sorted (state merging across
insertion orders: handlers are functions of the *contents*), numpy arrays become (shape, dtype, bytes),
objects become (qualified class, canon(__dict__ minus DROP)), functions (qualname, closure contents).
Objects registered as `shared` (immutable definitions: ComputationDef, Variables, constraints) are
represented by their index only.
"""
import functools
import hashlib
import logging
import types

import numpy as np

DROP = {"logger", "_msg_sender", "_periodic_action_handler", "computation_def", "_decorated_handlers", "_msg_handlers"}


class Canon:
    def __init__(self, shared=(), drop=DROP, resolve=None):
        self.shared = {id(o): i for i, o in enumerate(shared)}
        self._keep = list(shared)  # keep alive so ids stay valid
        self.drop = set(drop)
        self.resolve = resolve  # optional: object -> short name (e.g. computation -> its name)

    def __call__(self, x):
        return self._c(x, [])

    def digest(self, x):
        return hashlib.blake2b(repr(self._c(x, [])).encode(), digest_size=12).digest()

    def _c(self, x, path):
        if x is None or isinstance(x, (bool, int, str, bytes)):
            return x
        if isinstance(x, float):
            return ("f", repr(x))
        sid = self.shared.get(id(x))
        if sid is not None:
            return ("shared", sid)
        if isinstance(x, (np.generic,)):
            return ("np", str(x.dtype), repr(x.item()))
        if isinstance(x, np.ndarray):
            return ("nd", x.shape, str(x.dtype), x.tobytes() if x.dtype != object else repr(x.tolist()))
        if any(x is p for p in path):
            return ("cycle", next(i for i, p in enumerate(path) if x is p))
        path = path + [x]
        if isinstance(x, (list, tuple)):
            return (type(x).__name__,) + tuple(self._c(i, path) for i in x)
        if isinstance(x, dict):
            items = [(self._c(k, path), self._c(v, path)) for k, v in x.items()]
            items.sort(key=repr)
            return ("dict",) + tuple(items)
        if isinstance(x, (set, frozenset)):
            items = [self._c(i, path) for i in x]
            items.sort(key=repr)
            return ("set",) + tuple(items)
        if isinstance(x, logging.Logger):
            return ("logger",)
        if isinstance(x, types.ModuleType):
            return ("module", x.__name__)
        if isinstance(x, functools.partial):
            return ("partial", self._c(x.func, path), self._c(x.args, path), self._c(x.keywords, path))
        if isinstance(x, types.MethodType):
            s = x.__self__
            if self.resolve is not None:
                n = self.resolve(s)
                if n is not None:
                    return ("meth", x.__func__.__qualname__, n)
            return ("meth", x.__func__.__qualname__, type(s).__qualname__)
        if isinstance(x, (types.FunctionType, types.BuiltinFunctionType)):
            cl = getattr(x, "__closure__", None)
            cells = ()
            if cl:
                vals = []
                for c in cl:
                    try:
                        vals.append(self._c(c.cell_contents, path))
                    except ValueError:
                        vals.append(("empty",))
                cells = tuple(vals)
            return ("fn", getattr(x, "__qualname__", repr(x)), cells, self._c(getattr(x, "__defaults__", None), path))
        if isinstance(x, type):
            return ("type", x.__qualname__)
        if self.resolve is not None and len(path) > 2:
            n = self.resolve(x)
            if n is not None:
                return ("ref", n)
        d = getattr(x, "__dict__", None)
        if d is not None:
            items = [(k, self._c(v, path)) for k, v in d.items() if k not in self.drop]
            items.sort(key=lambda kv: kv[0])
            slots = ()
            return ("obj", type(x).__module__ + "." + type(x).__qualname__, tuple(items))
        if hasattr(x, "__slots__"):
            return ("slots", type(x).__qualname__, tuple((s, self._c(getattr(x, s, None), path)) for s in x.__slots__))
        return ("repr", type(x).__qualname__, repr(x))
