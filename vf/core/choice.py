"""ChoiceSource: every random draw of the code under test becomes an explorer-owned choice point.

A facade object replaces the `random` module attribute (or `choice` function, or numpy's `random`) in the
namespace of the pyDCOP modules under test.  Each call asks the *current controller* for an answer index in
`range(arity)`; the controller replays a prefix and answers 0 afterwards, recording the arity of every point,
so that the explorer can enumerate all answer vectors (see netx.expand_choices).
"""
import itertools


class Controller:
    def __init__(self, prefix=()):
        self.prefix = list(prefix)
        self.taken = []
        self.arity = []
        self.labels = []

    def pick(self, arity, label=""):
        i = len(self.taken)
        if arity <= 0:
            raise IndexError("choice among zero alternatives: " + label)
        if i < len(self.prefix):
            a = self.prefix[i]
            if a >= arity:
                raise ReplayDivergence(f"choice {i} ({label}): recorded answer {a} but arity is {arity}")
        else:
            a = 0
        self.taken.append(a)
        self.arity.append(arity)
        self.labels.append(label)
        return a


class ReplayDivergence(Exception):
    pass


CURRENT = Controller()


def set_controller(c):
    global CURRENT
    CURRENT = c
    return c


class RandomFacade:
    """Stands in for the `random` module (and numpy.random) inside a pyDCOP module.

    random()/uniform(a,b): 2-point menu {low end, just below high end} unless `unit_menu` overrides it;
    choice(seq): every element; randint(a,b): end points; sample/shuffle: all k-subsets / permutations.
    """

    def __init__(self, tag, unit_menu=(0.0, 0.999999), max_perm=4):
        self.tag = tag
        self.unit_menu = tuple(unit_menu)
        self.max_perm = max_perm

    # -- module-like API
    def random(self):
        m = self.unit_menu
        return m[CURRENT.pick(len(m), self.tag + ".random")]

    def uniform(self, a, b):
        m = self.unit_menu
        return a + (b - a) * m[CURRENT.pick(len(m), self.tag + ".uniform")]

    def choice(self, seq):
        seq = list(seq)
        return seq[CURRENT.pick(len(seq), self.tag + ".choice")]

    def randint(self, a, b):
        opts = [a] if a == b else [a, b]
        return opts[CURRENT.pick(len(opts), self.tag + ".randint")]

    def randrange(self, a, b=None):
        if b is None:
            a, b = 0, a
        return self.randint(a, b - 1)

    def sample(self, population, k):
        pop = list(population)
        combos = list(itertools.permutations(pop, k)) if len(pop) <= self.max_perm else [tuple(pop[:k]), tuple(pop[::-1][:k])]
        return list(combos[CURRENT.pick(len(combos), self.tag + ".sample")])

    def shuffle(self, lst):
        if len(lst) <= self.max_perm:
            perms = list(itertools.permutations(list(lst)))
        else:
            perms = [tuple(lst), tuple(reversed(lst))]
        p = perms[CURRENT.pick(len(perms), self.tag + ".shuffle")]
        lst[:] = list(p)

    def seed(self, *a, **k):
        pass

    def __call__(self, seq):  # when bound in place of `from random import choice`
        return self.choice(seq)


class _Bound:
    """Stands in for a function imported with `from random import shuffle` etc."""

    def __init__(self, facade, name):
        self.facade = facade
        self.name = name

    def __call__(self, *a, **k):
        return getattr(self.facade, self.name)(*a, **k)


def _is_random_function(obj):
    return (type(obj).__name__ == "method" and type(getattr(obj, "__self__", None)).__name__ == "Random") or isinstance(obj, _Bound)


def install(module, unit_menu=(0.0, 0.999999), attr_names=("random", "choice", "shuffle", "sample", "randint", "uniform")):
    """Rebind `random` (module) / `choice` (function) attributes of a pyDCOP module. Returns the undo list."""
    import types

    undo = []
    for attr in attr_names:
        if not hasattr(module, attr):
            continue
        cur = getattr(module, attr)
        fac = RandomFacade(module.__name__.split(".")[-1], unit_menu)
        if isinstance(cur, types.ModuleType) and cur.__name__ in ("random", "numpy.random"):
            undo.append((module, attr, cur))
            setattr(module, attr, fac)
        elif isinstance(cur, RandomFacade):
            cur.unit_menu = tuple(unit_menu)
        elif isinstance(cur, _Bound):
            cur.facade.unit_menu = tuple(unit_menu)
        elif _is_random_function(cur):
            undo.append((module, attr, cur))
            setattr(module, attr, _Bound(fac, cur.__name__))
    return undo
