"""E1 NETX: explicit-state search over real computation objects on a virtual per-channel-FIFO network.

World = {real computations, FIFO channel per ordered pair, per-computation front lane, started set, monitor data}.
Events: ("start", X) | ("deliver", src, dst) | ("front", X) | ("tick", X, handle) | spec-defined extras.
Every event is executed on a deep copy of the predecessor world (immutable definitions shared), under a
choice Controller; a step with k random draws is expanded into all its answer vectors.
Search: iterative DFS with a `seen` set of canonical state digests.
"""
import copy
import sys
import traceback

from vf.core import choice as choice_mod
from vf.core.canon import Canon

CUR = None  # the world the currently executing event belongs to
MSG_ALGO = 20


class Port:
    """message_sender handed to every computation (holds no reference to a world)."""

    def __call__(self, src, dst, msg, prio=None, on_error=None):
        CUR.post(src, dst, msg, prio)

    def __deepcopy__(self, memo):
        return self


PORT = Port()


class Hook:
    """Instance-level replacement of finished / _on_new_cycle / _on_value_selection (what Agent.add_computation
    does with notify_wrap): calls the original class method, then records in the current world's monitor."""

    def __init__(self, comp_name, kind):
        self.comp_name = comp_name
        self.kind = kind

    def __call__(self, *args, **kwargs):
        comp = CUR.comps[self.comp_name]
        orig = getattr(type(comp), self.kind)
        res = orig(comp, *args, **kwargs)
        CUR.on_hook(self.comp_name, self.kind, args)
        return res

    def __deepcopy__(self, memo):
        return self


class PeriodicStub:
    """periodic_action_handler: turns set_periodic_action into explicit tick events."""

    def set_periodic_action(self, period, cb):
        # cb is MessagePassingComputation.add_periodic_action.<locals>.call_action closing over (cb, self)
        target = None
        for cell in cb.__closure__ or ():
            v = cell.cell_contents
            if hasattr(v, "__self__") and hasattr(v, "__func__"):
                target = v
        if target is None:
            raise RuntimeError("PeriodicStub: cannot find the bound method in the periodic callback")
        name = target.__self__.name
        CUR.tick_counter += 1
        handle = ("tick", name, target.__func__.__name__, period, CUR.tick_counter)
        CUR.ticks.append(handle)
        return handle

    def remove_periodic_action(self, handle):
        CUR.ticks.remove(handle)

    def __deepcopy__(self, memo):
        return self


PERIODIC = PeriodicStub()


class World:
    def __init__(self):
        self.comps = {}
        self.chans = {}
        self.front = {}
        self.started = []
        self.ticks = []
        self.tick_counter = 0
        self.mon = {}
        self.finished = []  # names, in notification order (may repeat)
        self.exception = None
        self.actor = None
        self.undeliverable = []
        self.nsteps = 0
        self.tickn = {}  # computation -> number of tick events executed (periodic actions have no cycle counter)
        self.globals = {}

    # ---- called by Port / Hook during an event
    def post(self, src, dst, msg, prio):
        if dst not in self.comps:
            self.undeliverable.append((src, dst, msg))
            return
        if prio is not None and prio < MSG_ALGO and dst == self.actor:
            self.front.setdefault(dst, []).append((src, msg))
            return
        self.chans.setdefault((src, dst), []).append(msg)
        spec = self.mon.get("_spec")
        if spec is not None:
            spec.on_post(self, src, dst, msg)

    def on_hook(self, name, kind, args):
        if kind == "finished":
            self.finished.append(name)
        spec = self.mon.get("_spec")
        if spec is not None:
            spec.on_hook(self, name, kind, args)

    def add(self, comp, hooks=("finished", "_on_new_cycle", "_on_value_selection")):
        comp.message_sender = PORT
        try:
            comp.periodic_action_handler = PERIODIC
        except AttributeError:
            pass
        for h in hooks:
            if hasattr(type(comp), h):
                setattr(comp, h, Hook(comp.name, h))
        self.comps[comp.name] = comp


class Spec:
    """Property-specific part of a netx run. Sub-class and override."""

    drop_fields = ()

    def on_post(self, world, src, dst, msg):
        pass

    def on_hook(self, world, name, kind, args):
        pass

    def consuming(self, world, name):
        return True

    def extra_events(self, world):
        return ()

    def apply_extra(self, world, event):
        raise NotImplementedError

    def canon_extra(self, world):
        return ()

    def check_state(self, world, event, report):
        pass

    def check_end(self, world, report):
        pass

    def start_allowed(self, world, name):
        return True

    def __deepcopy__(self, memo):
        return self


def enabled_events(world, spec):
    if world.exception is not None:
        return []
    evs = []
    for n in world.comps:
        if n not in world.started and spec.start_allowed(world, n):
            evs.append(("start", n))
    for n, lane in world.front.items():
        if lane and spec.consuming(world, n):
            evs.append(("front", n))
    for (src, dst), q in world.chans.items():
        if q and not world.front.get(dst) and spec.consuming(world, dst):
            evs.append(("deliver", src, dst))
    for h in world.ticks:
        if spec.consuming(world, h[1]) and h[1] in world.started:
            evs.append(h)
    evs.extend(spec.extra_events(world))
    evs.sort(key=repr)
    return evs


def apply_event(world, event, spec, controller):
    """Execute one event on `world` (in place). Exceptions of the code under test are recorded, not raised."""
    global CUR
    CUR = world
    choice_mod.set_controller(controller)
    for (owner, attr), val in world.globals.items():
        setattr(owner, attr, val)
    kind = event[0]
    world.nsteps += 1
    try:
        if kind == "start":
            world.actor = event[1]
            world.started.append(event[1])
            world.comps[event[1]].start()
        elif kind == "deliver":
            src, dst = event[1], event[2]
            msg = world.chans[(src, dst)].pop(0)
            if not world.chans[(src, dst)]:
                del world.chans[(src, dst)]
            world.actor = dst
            world.comps[dst].on_message(src, msg, 0.0)
        elif kind == "front":
            n = event[1]
            src, msg = world.front[n].pop(0)
            if not world.front[n]:
                del world.front[n]
            world.actor = n
            world.comps[n].on_message(src, msg, 0.0)
        elif kind == "tick":
            _, n, meth, _, _ = event
            world.actor = n
            world.tickn[n] = world.tickn.get(n, 0) + 1
            comp = world.comps[n]
            if not comp.is_paused:  # body of add_periodic_action.<locals>.call_action
                getattr(comp, meth)()
        else:
            spec.apply_extra(world, event)
    except choice_mod.ReplayDivergence:
        raise
    except Exception as e:  # the code under test raised
        tb = traceback.extract_tb(sys.exc_info()[2])
        where = [f"{f.filename.split('/')[-1]}:{f.lineno}:{f.name}" for f in tb[-3:]]
        world.exception = (list(event), type(e).__name__, str(e)[:300], where)
    finally:
        world.actor = None
        for (owner, attr) in list(world.globals):
            world.globals[(owner, attr)] = getattr(owner, attr)


def clone(world, shared_memo):
    memo = dict(shared_memo)
    return copy.deepcopy(world, memo)


class Explorer:
    def __init__(self, spec, shared=(), max_states=None, resolve_names=True, schedule="all"):
        # schedule: "all" = every enabled event in every state (full interleaving exploration);
        # "first"/"last" = one canonical schedule (first / last enabled event in sorted order) - the random
        # answers inside each step are still all expanded. Used for wide instance sweeps.
        self.schedule = schedule
        self.spec = spec
        self.shared = list(shared) + [spec]
        self.shared_memo = {id(o): o for o in self.shared}
        self.max_states = max_states
        self.canon = None
        self.seen = set()
        self.stats = {"states": 0, "transitions": 0, "traces": 0, "choice_points": 0, "max_depth": 0, "revisits": 0}
        self.capped = False
        self.end_digests = set()
        self.sample_traces = []
        # optional state-graph bookkeeping (livelock detection: states from which no end state can be reached)
        self.track_graph = False
        self.edges = {}
        self.terminal = set()
        self.open_ends = set()  # states whose successors were not expanded (cap): treated as "may still terminate"
        self.hist_of = {}

    def digest(self, world):
        if self.canon is None:
            names = {}
            self.canon = Canon(shared=self.shared, drop=set(Canon.__init__.__defaults__[1]) | set(self.spec.drop_fields))
        c = self.canon
        body = (
            tuple(sorted((n, c(comp)) for n, comp in world.comps.items())),
            tuple(sorted((k, tuple(c(m) for m in q)) for k, q in world.chans.items())),
            tuple(sorted((k, tuple((s, c(m)) for s, m in q)) for k, q in world.front.items() if q)),
            tuple(sorted(world.started)),
            tuple(world.ticks), tuple(sorted(world.tickn.items())),
            c(world.exception),
            tuple(c(u) for u in world.undeliverable),
            c(self.spec.canon_extra(world)),
            tuple(sorted((repr(k), c(v)) for k, v in world.globals.items())),
        )
        import hashlib

        return hashlib.blake2b(repr(body).encode(), digest_size=12).digest()

    def successors(self, world, event):
        """All (world', choices) reachable by `event`, one per answer vector of the random draws inside it."""
        out = []
        stack = [[]]
        while stack:
            prefix = stack.pop()
            w2 = clone(world, self.shared_memo)
            ctl = choice_mod.Controller(prefix)
            apply_event(w2, event, self.spec, ctl)
            keep = getattr(self, "succ_filter", None)
            if keep is None or keep(event, list(ctl.taken)):  # sharding by random answers (e.g. one initial assignment per shard)
                out.append((w2, list(ctl.taken)))
            self.stats["choice_points"] += max(0, len(ctl.taken) - len(prefix))
            for i in range(len(prefix), len(ctl.taken)):
                for alt in range(1, ctl.arity[i]):
                    stack.append(ctl.taken[:i] + [alt])
        return out

    def run(self, world0, report):
        """report(kind, world, history, detail) is called for violations found by the spec.

        schedule "dev:<base>:<n>" = delay-bounded exploration: the canonical schedule <base> plus every execution that departs from
        it at most n times (a departure = taking another enabled event than the one <base> would take in that state; after it <base>
        resumes). A state is re-expanded when it is reached again with a larger remaining budget."""
        spec = self.spec
        world0.mon["_spec"] = spec
        dev_base, budget0 = None, None
        if self.schedule.startswith("dev:"):
            _, dev_base, n = self.schedule.split(":")
            budget0 = int(n)
            self.best_budget = {}
        d0 = self.digest(world0)
        self.seen.add(d0)
        self.stats["states"] += 1

        def events_of(world, depth, budget):
            evs = enabled_events(world, spec)
            if dev_base is None:
                return self._pick(evs, depth)
            if len(evs) <= 1:
                return evs
            default = self._pick(evs, depth, dev_base)
            if budget <= 0:
                return default
            return default + [e for e in evs if e != default[0]]

        # stack entries: (world, history(tuple chain), events list, next index, depth, digest, remaining budget)
        evs0 = events_of(world0, 0, budget0)
        first = getattr(self, "first_filter", None)
        if first is not None:  # sharding: this explorer only takes the given first event
            evs0 = [e for e in evs0 if list(e) == list(first)]
        stack = [(world0, None, evs0, 0, 0, d0, budget0)]
        self._end_or_continue(world0, None, stack[0][2], report)
        if dev_base is not None:
            self.best_budget[d0] = budget0
        if self.track_graph:
            self.hist_of[d0] = None
            if not evs0:
                self.terminal.add(d0)
        while stack:
            world, hist, events, idx, depth, dsrc, budget = stack.pop()
            if idx >= len(events):
                continue
            stack.append((world, hist, events, idx + 1, depth, dsrc, budget))
            ev = events[idx]
            b2 = budget
            if dev_base is not None and idx > 0:
                b2 = budget - 1
            for w2, choices in self.successors(world, ev):
                self.stats["transitions"] += 1
                h2 = (hist, (list(ev), choices))
                spec.check_state(w2, ev, lambda key, what, w=w2, h=h2: report(key, what, w, h))
                d = self.digest(w2)
                if self.track_graph:
                    self.edges.setdefault(dsrc, set()).add(d)
                if d in self.seen:
                    if dev_base is None or self.best_budget.get(d, -1) >= b2:
                        self.stats["revisits"] += 1
                        continue
                    self.best_budget[d] = b2  # reached again with more departures left: expand again
                else:
                    self.seen.add(d)
                    self.stats["states"] += 1
                    if dev_base is not None:
                        self.best_budget[d] = b2
                if self.track_graph:
                    self.hist_of.setdefault(d, h2)
                if depth + 1 > self.stats["max_depth"]:
                    self.stats["max_depth"] = depth + 1
                if self.max_states and self.stats["states"] >= self.max_states:
                    self.capped = True
                    self.open_ends.add(d)
                    continue
                evs2 = events_of(w2, depth + 1, b2)
                self._end_or_continue(w2, h2, evs2, report)
                if evs2:
                    stack.append((w2, h2, evs2, 0, depth + 1, d, b2))
                elif self.track_graph:
                    self.terminal.add(d)
        return self.stats

    def livelocked(self):
        """States (digest, history) from which no end state (nor unexpanded state) is reachable: every continuation runs for ever.
        Needs track_graph. Returns the shallowest such state first."""
        rev = {}
        for a, bs in self.edges.items():
            for b in bs:
                rev.setdefault(b, []).append(a)
        ok = set(self.terminal) | set(self.open_ends)
        todo = list(ok)
        while todo:
            b = todo.pop()
            for a in rev.get(b, ()):
                if a not in ok:
                    ok.add(a)
                    todo.append(a)
        bad = [d for d in self.seen if d not in ok]

        def depth(h):
            n = 0
            while h is not None:
                h, n = h[0], n + 1
            return n

        bad.sort(key=lambda d: depth(self.hist_of.get(d)))
        return [(d, self.hist_of.get(d)) for d in bad]

    def _pick(self, events, depth=0, schedule=None):
        schedule = schedule or self.schedule
        if schedule == "all" or len(events) <= 1:
            return events
        if schedule == "first":
            return events[:1]
        if schedule == "last":
            return events[-1:]
        if schedule in ("alt", "alt2"):  # alternate first/last enabled event with the step parity
            odd = (depth + (1 if schedule == "alt2" else 0)) % 2
            return events[-1:] if odd else events[:1]
        if schedule in ("alt3", "alt4"):  # period-3 pattern: changes the arrival order from cycle to cycle
            r = (depth + (1 if schedule == "alt4" else 0)) % 3
            return events[-1:] if r == 0 else events[:1]
        raise ValueError(schedule)

    def _end_or_continue(self, world, hist, events, report):
        if events:
            return
        self.stats["traces"] += 1
        self.spec.check_end(world, lambda key, what, w=world, h=hist: report(key, what, w, h))
        self.end_digests.add(self.digest_end(world))
        if len(self.sample_traces) < 2:
            self.sample_traces.append(unroll(hist))

    def digest_end(self, world):
        return repr(self.spec.canon_extra(world)) + repr(sorted(world.finished)) + repr(world.exception)


def run_single(world, spec, schedule, report, max_steps=200000):
    """ONE execution, in place (no snapshots, no state caching), under a canonical schedule, every random draw answered 0.
    About 20x cheaper than Explorer.run on the same path: meant for wide instance sweeps. check_state after every event,
    check_end at quiescence; report(key, what, world, history) as for the Explorer (the history replays with netx.replay).
    Returns {"steps", "ended", "draws_with_alternatives"}."""
    world.mon["_spec"] = spec
    picker = Explorer(spec, schedule=schedule)
    hist, depth, alts = None, 0, 0
    while depth < max_steps:
        evs = picker._pick(enabled_events(world, spec), depth)
        if not evs:
            break
        ev = evs[0]
        ctl = choice_mod.Controller()
        apply_event(world, ev, spec, ctl)
        alts += sum(1 for a in ctl.arity if a > 1)
        hist = (hist, (list(ev), list(ctl.taken)))
        spec.check_state(world, ev, lambda key, what, h=hist: report(key, what, world, h))
        depth += 1
    ended = depth < max_steps
    if ended:
        spec.check_end(world, lambda key, what, h=hist: report(key, what, world, h))
    return {"steps": depth, "ended": ended, "draws_with_alternatives": alts}


def site(where):
    """'file.py:function' of the innermost frame (no line number: violation keys must survive unrelated edits)."""
    last = where[-1] if where else "?"
    parts = last.split(":")
    return parts[0] + ":" + parts[-1] if len(parts) >= 3 else last


def unroll(hist):
    out = []
    while hist is not None:
        hist, step = hist
        out.append(step)
    out.reverse()
    return out


def replay(world0, spec, history, observe=None):
    """Re-execute a recorded history [[event, choices], ...] on a fresh world (no explorer)."""
    world0.mon["_spec"] = spec
    w = world0
    for ev, choices in history:
        ev = tuple(ev)
        en = enabled_events(w, spec)
        if ev not in [tuple(e) for e in en]:
            raise choice_mod.ReplayDivergence(f"event {ev} not enabled; enabled: {en}")
        ctl = choice_mod.Controller(choices)
        apply_event(w, ev, spec, ctl)
        if list(ctl.taken) != list(choices):
            raise choice_mod.ReplayDivergence(f"choices diverged at {ev}: {ctl.taken} vs {choices}")
        if observe:
            observe(w, ev)
    return w
