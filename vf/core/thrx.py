"""E3 THRX: deviation-bounded systematic scheduling of the real threaded pyDCOP runtime.

Every pyDCOP thread is a real OS thread parked on its own semaphore; exactly one holds the baton. The harness
rebinds Thread / threading.Event / threading.Timer / PriorityQueue / Queue / sleep / perf_counter / time in the
pydcop.infrastructure modules to the scheduler-aware versions below. Scheduling points: thread start/exit/join,
Event.set/wait, queue put/get, sleep, timer expiry (+ optional traced lines). Virtual time: +1 ms per scheduling
point, jump to the earliest deadline when nothing is enabled.

Exploration: the default schedule is fair (continue the running thread, else the longest-waiting enabled one).
A *deviation* is any non-default choice. `explore` runs the default schedule, then every schedule with 1, 2, ... b
deviations (stateless DFS over choice prefixes), each execution to completion on fresh objects.
"""
import heapq
import itertools
import queue as _queue
import sys
import threading as _threading
import time as _time
import traceback


class Abort(BaseException):
    """Raised at every scheduling point of every controlled thread once the execution is being torn down."""


class ReplayDivergence(Exception):
    pass


class TS:
    __slots__ = ("id", "name", "sem", "state", "pred", "deadline", "last_run", "real", "daemon", "error", "view")

    def __init__(self, tid, name):
        self.id = tid
        self.name = name
        self.sem = _threading.Semaphore(0)
        self.state = "new"
        self.pred = None
        self.deadline = None
        self.last_run = 0
        self.real = None
        self.daemon = False
        self.error = None
        self.view = None


class Sched:
    def __init__(self, choices=(), horizon=120.0, max_points=400000, step=0.001, trace_lines=None, policy="fair"):
        # policy = the DEFAULT schedule (answer 0 at every point); deviations are counted relative to it:
        #   fair       continue the running thread, else the longest-waiting enabled thread
        #   lifo       continue the running thread, else the most recently run one (runs threads to their next block; slow others)
        #   name / name-desc   continue the running thread, else by thread name
        #   slow:<substr>      like fair, but threads whose name contains <substr> come last (a slow thread)
        self.policy = policy
        self.choices = list(choices)
        self.taken = []
        self.arity = []
        self.labels = []
        self.horizon = horizon
        self.max_points = max_points
        self.step = step
        self.clock = 0.0
        self.reads = 0
        self.points = 0
        self.threads = []
        self.aborted = None  # reason string
        self.abort_kind = None
        self.trace_lines = trace_lines  # set of (filename suffix, function name) or None
        self.monitors = []
        main = TS(0, "MainThread")
        main.state = "ready"
        main.real = _threading.current_thread()
        self.threads.append(main)
        self.current = main
        self.log = []

    # ------------------------------------------------------------ core
    def _enabled(self, t):
        if t.state == "ready":
            return True
        if t.state == "blocked":
            if t.pred is not None and t.pred():
                return True
            if t.deadline is not None and self.clock >= t.deadline:
                return True
        return False

    def abort(self, reason, kind="error"):
        if self.aborted is None:
            self.aborted = reason
            self.abort_kind = kind
        for t in self.threads:
            if t is not self.current:
                t.sem.release()

    def _pick(self, n, label):
        i = len(self.taken)
        if i < len(self.choices):
            a = self.choices[i]
            if a >= n:
                self.abort(f"replay divergence at choice {i} ({label}): answer {a} >= arity {n}", "divergence")
                raise Abort()
        else:
            a = 0
        self.taken.append(a)
        self.arity.append(n)
        return a

    def switch(self, label=""):
        """Scheduling point: the calling thread (self.current) has already updated its own state."""
        me = self.current
        if self.aborted is not None:
            raise Abort()
        self.points += 1
        self.clock += self.step
        if self.points > self.max_points:
            self.abort(f"more than {self.max_points} scheduling points", "budget")
            raise Abort()
        while True:
            enabled = [t for t in self.threads if self._enabled(t)]
            if enabled:
                break
            deadlines = [t.deadline for t in self.threads if t.state == "blocked" and t.deadline is not None]
            if not deadlines:
                blocked = [t.name for t in self.threads if t.state == "blocked"]
                self.abort(f"deadlock: no enabled thread and no deadline; blocked: {blocked}", "deadlock")
                raise Abort()
            self.clock = max(self.clock, min(deadlines))
            if self.clock > self.horizon:
                self.abort(f"virtual time exceeded the horizon {self.horizon}s", "horizon")
                raise Abort()
        if self.clock > self.horizon:
            self.abort(f"virtual time exceeded the horizon {self.horizon}s", "horizon")
            raise Abort()
        # canonical order: the running thread first if still enabled, then longest-waiting first
        pol = self.policy
        if pol == "fair":
            key = lambda t: (t.last_run, t.id)
        elif pol == "lifo":
            key = lambda t: (-t.last_run, t.id)
        elif pol == "name":
            key = lambda t: (t.name, t.id)
        elif pol == "name-desc":
            key = lambda t: (tuple(-ord(c) for c in t.name), t.id)
        elif pol.startswith("slow:"):
            sub = pol[5:]
            key = lambda t: (1 if sub in t.name else 0, t.last_run, t.id)
        else:
            raise ValueError(pol)
        rest = sorted((t for t in enabled if t is not me), key=key)
        if pol.startswith("slow:") and me in enabled and pol[5:] in me.name and rest and pol[5:] not in rest[0].name:
            # a slow thread is preempted by default whenever a normal thread is enabled
            enabled = [t for t in enabled if t is not me] + [me]
            order = rest + [me]
            idx = self._pick(len(order), label) if len(order) > 1 else 0
            nxt = order[idx]
            nxt.last_run = self.points
            if nxt is me:
                return
            self.current = nxt
            nxt.sem.release()
            if me.state != "done":
                me.sem.acquire()
                if self.aborted is not None:
                    raise Abort()
            return
        order = ([me] if me in enabled else []) + rest
        idx = self._pick(len(order), label) if len(order) > 1 else 0
        nxt = order[idx]
        nxt.last_run = self.points
        if nxt is me:
            return
        self.current = nxt
        nxt.sem.release()
        if me.state != "done":
            me.sem.acquire()
            if self.aborted is not None:
                raise Abort()

    def point(self, label=""):
        """A plain scheduling point for the running thread (stays ready)."""
        self.switch(label)

    def block(self, pred, timeout=None, label=""):
        me = self.current
        if self.aborted is not None:
            raise Abort()
        if pred():
            self.switch(label)
            return True
        if timeout is not None and timeout <= 0:
            self.switch(label)
            return pred()
        me.state = "blocked"
        me.pred = pred
        me.deadline = None if timeout is None else self.clock + timeout
        try:
            self.switch(label)
        finally:
            me.state = "ready" if me.state == "blocked" else me.state
            me.pred = None
            me.deadline = None
        return pred()

    # ------------------------------------------------------------ thread lifecycle
    def spawn(self, vthread):
        ts = TS(len(self.threads), vthread.name)
        ts.daemon = vthread.daemon
        vthread._ts = ts
        sched = self

        def boot():
            _TLS.sched = sched
            ts.sem.acquire()
            try:
                if sched.aborted is not None:
                    return
                if sched.trace_lines:
                    sys.settrace(sched._tracer)
                vthread.run()
            except Abort:
                pass
            except BaseException as e:  # noqa: an exception escaped the thread's target
                ts.error = (type(e).__name__, str(e)[:300], traceback.format_exc()[-1500:])
            finally:
                sys.settrace(None)
                ts.state = "done"
                if sched.aborted is None:
                    try:
                        sched.switch("exit:" + ts.name)
                    except Abort:
                        pass

        ts.real = _threading.Thread(target=boot, name="vf-" + vthread.name, daemon=True)
        self.threads.append(ts)
        ts.state = "ready"
        ts.last_run = self.points
        ts.real.start()
        self.switch("spawn:" + ts.name)
        return ts

    def _tracer(self, frame, event, arg):
        code = frame.f_code
        for suffix, fn in self.trace_lines:
            if code.co_name == fn and code.co_filename.endswith(suffix):
                return self._line_tracer
        return None

    def _line_tracer(self, frame, event, arg):
        if event == "line" and self.aborted is None:
            self.switch(f"line:{frame.f_code.co_name}:{frame.f_lineno}")
        return self._line_tracer

    def finish(self, join_timeout=5.0):
        """End of the execution: tear down every remaining controlled thread."""
        self.abort("finished", "finished")
        for t in self.threads[1:]:
            if t.real is not None:
                t.real.join(join_timeout)
        leftover = [t.name for t in self.threads[1:] if t.real is not None and t.real.is_alive()]
        return leftover

    def thread_errors(self):
        return [(t.name,) + t.error[:2] for t in self.threads if t.error]


SCHED = None  # the scheduler of the execution in progress (main thread's view)
_TLS = _threading.local()


def cur():
    """The scheduler the calling thread belongs to. A straggler thread of a finished execution keeps talking to its own
    (aborted) scheduler and unwinds, instead of disturbing the next execution."""
    s = getattr(_TLS, "sched", None)
    return s if s is not None else SCHED


# ---------------------------------------------------------------- scheduler-aware primitives


class VThread:
    def __init__(self, group=None, target=None, name=None, args=(), kwargs=None, daemon=None):
        self._target = target
        self._args = args
        self._kwargs = kwargs or {}
        self.name = name or f"Thread-{id(self) % 10000}"
        self.daemon = bool(daemon)
        self._ts = None

    def run(self):
        if self._target is not None:
            self._target(*self._args, **self._kwargs)

    def start(self):
        cur().spawn(self)

    def is_alive(self):
        return self._ts is not None and self._ts.state != "done"

    isAlive = is_alive

    def join(self, timeout=None):
        if self._ts is None:
            return
        ts = self._ts
        cur().block(lambda: ts.state == "done", timeout, "join:" + self.name)

    @property
    def ident(self):
        return None if self._ts is None else self._ts.id


class VTimer(VThread):
    def __init__(self, interval, function, args=None, kwargs=None):
        super().__init__(name=f"Timer-{getattr(function, '__name__', 'fn')}")
        self.interval = interval
        self.function = function
        self.fargs = args or []
        self.fkwargs = kwargs or {}
        self._cancelled = False
        self.daemon = True

    def cancel(self):
        self._cancelled = True

    def run(self):
        cur().block(lambda: self._cancelled, self.interval, "timer:" + self.name)
        if not self._cancelled:
            self.function(*self.fargs, **self.fkwargs)


class VEvent:
    def __init__(self):
        self._flag = False

    def is_set(self):
        return self._flag

    isSet = is_set

    def set(self):
        self._flag = True
        cur().point("event.set")

    def clear(self):
        self._flag = False

    def wait(self, timeout=None):
        return cur().block(lambda: self._flag, timeout, "event.wait")


class VPriorityQueue:
    def __init__(self, maxsize=0):
        self.queue = []

    def _put(self, item):
        heapq.heappush(self.queue, item)

    def _get(self):
        return heapq.heappop(self.queue)

    def put(self, item, block=True, timeout=None):
        self._put(item)
        cur().point("queue.put")

    put_nowait = put

    def get(self, block=True, timeout=None):
        if not block:
            timeout = 0
        ok = cur().block(lambda: len(self.queue) > 0, timeout, "queue.get")
        if not ok:
            raise _queue.Empty()
        return self._get()

    def get_nowait(self):
        return self.get(block=False)

    def empty(self):
        return not self.queue

    def qsize(self):
        return len(self.queue)


class VQueue(VPriorityQueue):
    def __init__(self, maxsize=0):
        import collections

        self.queue = collections.deque()

    def _put(self, item):
        self.queue.append(item)

    def _get(self):
        return self.queue.popleft()


def vsleep(t):
    cur().block(lambda: False, t, "sleep")


def vclock():
    # like a real perf_counter, two successive readings never return the same value (the library divides by elapsed times)
    c = cur()
    c.reads += 1
    return c.clock + c.reads * 1e-9


class _ThreadView:
    """What threading.current_thread() / main_thread() return under the scheduler: one stable object per thread."""

    def __init__(self, ts):
        self._ts = ts

    @property
    def name(self):
        return self._ts.name

    def getName(self):
        return self._ts.name

    @property
    def ident(self):
        return self._ts.id

    @property
    def daemon(self):
        return self._ts.daemon

    def is_alive(self):
        return self._ts.state != "done"


def _view(ts):
    v = getattr(ts, "view", None)
    if v is None:
        v = _ThreadView(ts)
        ts.view = v
    return v


class _VThreadingMeta(type):
    def __getattr__(cls, name):  # anything else (Lock, RLock, local, ...) comes from the real module
        return getattr(_threading, name)


class VThreadingModule(metaclass=_VThreadingMeta):
    """Stands in for the `threading` module attribute of a pyDCOP module."""

    Thread = VThread
    Event = VEvent
    Timer = VTimer

    @staticmethod
    def current_thread():
        return _view(cur().current)

    @staticmethod
    def main_thread():
        return _view(cur().threads[0])

    @staticmethod
    def get_ident():
        return cur().current.id

    @staticmethod
    def enumerate():
        return [_view(t) for t in cur().threads if t.state != "done"]


class VTimeModule:
    perf_counter = staticmethod(vclock)
    time = staticmethod(vclock)
    sleep = staticmethod(vsleep)


def install():
    """Rebind the primitives in the pyDCOP infrastructure namespaces. Returns an undo list."""
    import pydcop.infrastructure.agents as agents
    import pydcop.infrastructure.communication as communication
    import pydcop.infrastructure.orchestratedagents as orchestratedagents
    import pydcop.infrastructure.orchestrator as orchestrator
    import pydcop.infrastructure.run as run

    plan = [
        (agents, "Thread", VThread), (agents, "threading", VThreadingModule), (agents, "perf_counter", vclock), (agents, "sleep", vsleep),
        (communication, "Thread", VThread), (communication, "PriorityQueue", VPriorityQueue), (communication, "perf_counter", vclock),
        (communication, "sleep", vsleep),
        (orchestrator, "threading", VThreadingModule), (orchestrator, "Queue", VQueue), (orchestrator, "perf_counter", vclock),
        (orchestrator, "time", VTimeModule),
        (orchestratedagents, "perf_counter", vclock),
        (run, "Queue", VQueue),
    ]
    undo = []
    for mod, attr, val in plan:
        if hasattr(mod, attr):
            undo.append((mod, attr, getattr(mod, attr)))
            setattr(mod, attr, val)
    return undo


def uninstall(undo):
    for mod, attr, val in undo:
        setattr(mod, attr, val)


# ---------------------------------------------------------------- exploration


def execute(scenario, choices, **kw):
    """Run scenario(sched) once under the given choice prefix. Returns (sched, result, outcome dict)."""
    global SCHED
    sched = Sched(choices, **kw)
    SCHED = sched
    _TLS.sched = sched
    result, crash = None, None
    if sched.trace_lines:
        sys.settrace(sched._tracer)
    try:
        result = scenario(sched)
    except Abort:
        pass
    except BaseException as e:  # noqa - the scenario body (main thread) raised
        crash = (type(e).__name__, str(e)[:300], traceback.format_exc()[-2000:])
    finally:
        sys.settrace(None)
    leftover = sched.finish()
    outcome = {
        "abort": None if sched.abort_kind in (None, "finished") else (sched.abort_kind, sched.aborted),
        "crash": crash,
        "thread_errors": sched.thread_errors(),
        "points": sched.points,
        "clock": round(sched.clock, 3),
        "leftover_threads": leftover,
    }
    return sched, result, outcome


def explore(scenario, bound, on_execution, prefix=(), budget=None, first_dev_range=None, **kw):
    """All executions with at most `bound` deviations (non-default answers) beyond `prefix`.

    on_execution(choices_taken, sched, result, outcome) is called for each.  `first_dev_range=(lo, hi)` restricts the
    position of the first new deviation (used for sharding).  Returns (executions, tree nodes visited).
    """
    count = [0, 0]

    def rec(pref, remaining, lo, hi):
        sched, result, outcome = execute(scenario, pref, **kw)
        count[0] += 1
        on_execution(list(sched.taken), sched, result, outcome)
        if budget is not None and count[0] >= budget:
            return
        if remaining <= 0:
            return
        taken, arity = list(sched.taken), list(sched.arity)
        for i in range(max(len(pref), lo), min(len(taken), hi if hi is not None else len(taken))):
            for alt in range(1, arity[i]):
                count[1] += 1
                rec(taken[:i] + [alt], remaining - 1, i + 1, None)
                if budget is not None and count[0] >= budget:
                    return

    lo, hi = first_dev_range if first_dev_range else (0, None)
    rec(list(prefix), bound, lo, hi)
    return count[0], count[1]
