"""Runner: loads a check module, runs it, writes evidence, prints verdict lines."""
import argparse
import hashlib
import importlib
import json
import logging
import multiprocessing
import os
import subprocess
import sys
import time
import traceback

ROOT = os.path.dirname(os.path.dirname(os.path.dirname(os.path.abspath(__file__))))
NPROC = int(os.environ.get("VF_NPROC", "16"))


class HarnessError(Exception):
    """The machinery itself is broken (exit 2) -- never reported as a violation."""


def jsonable(x, depth=0):
    if depth > 12:
        return repr(x)
    if x is None or isinstance(x, (bool, int, str)):
        return x
    if isinstance(x, float):
        if x != x or x in (float("inf"), float("-inf")):
            return repr(x)
        return x
    if isinstance(x, (list, tuple)):
        return [jsonable(i, depth + 1) for i in x]
    if isinstance(x, (set, frozenset)):
        return sorted((jsonable(i, depth + 1) for i in x), key=repr)
    if isinstance(x, dict):
        return {str(k): jsonable(v, depth + 1) for k, v in x.items()}
    try:
        import numpy as np

        if isinstance(x, np.generic):
            return jsonable(x.item(), depth + 1)
        if isinstance(x, np.ndarray):
            return jsonable(x.tolist(), depth + 1)
    except ImportError:
        pass
    return repr(x)


class Part:
    """Mergeable partial result of a shard (picklable, plain data)."""

    def __init__(self):
        self.counters = {}
        self.nontrivial = set()
        self.outcomes = set()
        self.violations = []  # dicts key/what/case
        self.samples = []
        self.notes = []
        self.maxima = {}

    def count(self, name, n=1):
        self.counters[name] = self.counters.get(name, 0) + n

    def maxi(self, name, v):
        if v > self.maxima.get(name, float("-inf")):
            self.maxima[name] = v

    def nontriv(self, token):
        self.nontrivial.add(_h(token))

    def outcome(self, token):
        self.outcomes.add(_h(token))

    def sample(self, s, cap=3):
        if len(self.samples) < cap:
            self.samples.append(jsonable(s))

    def violation(self, key, what, case):
        # keep at most a few cases per key, smallest first
        self.violations.append({"key": key, "what": what, "case": jsonable(case)})
        if len(self.violations) > 400:
            self._compact()

    def _compact(self):
        best = {}
        for v in self.violations:
            k = v["key"]
            s = json.dumps(v["case"], sort_keys=True)
            if k not in best or (len(s), s) < best[k][0]:
                best[k] = ((len(s), s), v)
        counts = {}
        for v in self.violations:
            counts[v["key"]] = counts.get(v["key"], 0) + v.get("n", 1)
        self.violations = []
        for k, (_, v) in sorted(best.items()):
            v = dict(v)
            v["n"] = counts[k]
            self.violations.append(v)

    def merge(self, other):
        for k, v in other.counters.items():
            self.counters[k] = self.counters.get(k, 0) + v
        for k, v in other.maxima.items():
            self.maxi(k, v)
        self.nontrivial |= other.nontrivial
        self.outcomes |= other.outcomes
        self.violations.extend(other.violations)
        if len(self.violations) > 400:
            self._compact()
        for s in other.samples:
            if len(self.samples) < 6:
                self.samples.append(s)
        for n in other.notes:
            if n not in self.notes and len(self.notes) < 50:
                self.notes.append(n)
        return self


def _h(token):
    if not isinstance(token, (str, bytes)):
        token = repr(token)
    if isinstance(token, str):
        token = token.encode()
    return hashlib.blake2b(token, digest_size=8).digest()


def _call_shard(args):
    func, item = args
    try:
        r = func(item)
        if r is not None:
            r._compact()
        return ("ok", r)
    except BaseException:  # noqa
        return ("err", traceback.format_exc())


# property id -> why its thorough tier is the quick exploration (see DESIGN.md section 5)
THOROUGH_IS_QUICK = {
    "C09": "the deeper exploration (horizon 5-6, the 5-cycle under three base schedules, the 4-chain) did not finish within 30 minutes on 16 cores",
    "C10": "the thorough-only algorithm family stops with a harness error (no value_selection observed for mixeddsa); not repaired within the build budget",
    "C18": "bounds 3 / 2 did not finish within 50 minutes on 16 busy cores",
    "C21": "all mappings with single deviations under five more default schedules did not finish within 2 hours on 16 busy cores",
    "C22": "not reached: it follows C21 in the same family and shares its cost profile",
}


class Ctx:
    def __init__(self, pid, tier, seed):
        self.pid = pid
        self.tier = tier
        self.seed = seed
        self.part = Part()
        self.assumptions = []
        self.extra = {}  # extra coverage keys
        self.exhaustive = True
        self.rule = ""
        self.level = "exploration"

    @property
    def quick(self):
        return self.tier == "quick"

    def pmap(self, func, items, nproc=None):
        """Run func(item)->Part over items on a fork pool, merging results in item order."""
        items = list(items)
        nproc = min(nproc or NPROC, max(1, len(items)))
        if nproc == 1 or os.environ.get("VF_SERIAL") == "1":
            results = [_call_shard((func, it)) for it in items]
        else:
            ctx = multiprocessing.get_context("fork")
            with ctx.Pool(nproc, maxtasksperchild=None) as pool:
                results = pool.map(_call_shard, [(func, it) for it in items], chunksize=1)
        for tag, r in results:
            if tag == "err":
                raise HarnessError("shard failed:\n" + r)
            if r is not None:
                self.part.merge(r)

    def rotate(self, seq):
        """Rotate an enumeration order by the seed: never changes which cases are covered."""
        seq = list(seq)
        if not seq:
            return seq
        k = self.seed % len(seq)
        return seq[k:] + seq[:k]


def load_findings():
    """KNOWN_FINDINGS.txt lines:
    open: property=<id> key=<signature> :: <what fails>
    fixed: property=<id> <commit> <what failed>
    """
    path = os.path.join(ROOT, "KNOWN_FINDINGS.txt")
    open_ = {}
    if os.path.exists(path):
        for line in open(path):
            line = line.strip()
            if line.startswith("open:"):
                body = line[len("open:"):].strip()
                head, _, what = body.partition("::")
                fields = dict(f.split("=", 1) for f in head.split() if "=" in f)
                open_[(fields.get("property"), fields.get("key"))] = what.strip()
    return open_


def write_evidence(ctx, wall, nviol, check_mod):
    p = ctx.part
    cov = {}
    cov.update({k: v for k, v in p.counters.items()})
    cov.update({"max_" + k: v for k, v in p.maxima.items()})
    cov.update(ctx.extra)
    cov["evaluations"] = int(p.counters.get("evaluations", 0))
    cov["distinct_nontrivial"] = len(p.nontrivial)
    cov["distinct_outcomes"] = len(p.outcomes)
    cov["rule"] = ctx.rule
    cov["samples"] = p.samples[:6] or ["(no sample recorded)"]
    cov["exhaustive"] = bool(ctx.exhaustive)
    if p.notes:
        cov["notes"] = p.notes
    if ctx.level == "model_checking":
        cov.setdefault("states", int(p.counters.get("states", 0)))
        cov.setdefault("transitions", int(p.counters.get("transitions", 0)))
        cov.setdefault("traces_validated_against_impl", int(p.counters.get("traces", 0)))
    ev = {
        "property_id": ctx.pid,
        "tier": getattr(ctx, "requested_tier", ctx.tier),
        "seed": ctx.seed,
        "level": ctx.level,
        "coverage": jsonable(cov),
        "assumptions": list(ctx.assumptions) + ([ctx.tier_note] if getattr(ctx, "tier_note", None) else []),
        "wall_s": round(wall, 3),
        "violations": nviol,
    }
    os.makedirs(os.path.join(ROOT, "evidence"), exist_ok=True)
    path = os.path.join(ROOT, "evidence", ctx.pid + ".json")
    with open(path, "w") as f:
        json.dump(ev, f, indent=1, sort_keys=True)
        f.write("\n")
    return path


def validate_evidence(path):
    vt = "/opt/veriftools/pyvenv/bin/python"
    if not os.path.exists(vt):
        return
    code = (
        "import json,sys,jsonschema;"
        "s=json.load(open('/root/.vp/EVIDENCE.schema.json'));"
        "jsonschema.validate(json.load(open(sys.argv[1])),s)"
    )
    if not os.path.exists("/root/.vp/EVIDENCE.schema.json"):
        return
    r = subprocess.run([vt, "-c", code, path], stdout=subprocess.PIPE, stderr=subprocess.STDOUT, text=True)
    if r.returncode != 0:
        raise HarnessError("evidence does not validate: " + r.stdout[-1500:])


def main(argv):
    ap = argparse.ArgumentParser()
    ap.add_argument("pid")
    ap.add_argument("--tier", default=os.environ.get("VERIF_TIER", "quick"), choices=["quick", "thorough"])
    ap.add_argument("--replay", default=None)
    args = ap.parse_args(argv)
    logging.disable(logging.CRITICAL)
    pid = args.pid.upper()
    repo = os.path.realpath(os.environ.get("VF_REPO", "/repo"))
    try:
        import pydcop

        if not os.path.realpath(pydcop.__file__).startswith(repo + os.sep):
            print(f"HARNESS-ERROR property={pid} pydcop imported from {pydcop.__file__}, expected under {repo}")
            return 2
    except BaseException:
        traceback.print_exc()
        print(f"HARNESS-ERROR property={pid} cannot import pydcop from {repo}")
        return 2
    if repo != "/repo":
        print(f"(tree under test: {repo})")
    seed = int(os.environ.get("VERIF_SEED", "0") or 0)
    try:
        mod = importlib.import_module("vf.checks." + pid.lower())
    except BaseException:
        traceback.print_exc()
        print(f"HARNESS-ERROR property={pid} cannot import check module")
        return 2

    if args.replay:
        art = json.load(open(args.replay))
        print(f"replaying {art.get('key')} : {art.get('what')}")
        try:
            again = mod.replay(art["case"])
        except BaseException:
            traceback.print_exc()
            return 2
        print("violation reproduced" if again else "no violation on this tree")
        return 1 if again else 0

    # Checks whose deeper exploration could not be run to completion within the build budget answer the thorough command with
    # the exploration of the quick tier (stated in the evidence): a thorough command must never be one that was not seen to finish.
    tier = args.tier
    if tier == "thorough" and pid in THOROUGH_IS_QUICK:
        tier = "quick"
    ctx = Ctx(pid, tier, seed)
    ctx.requested_tier = args.tier
    if tier != args.tier:
        ctx.tier_note = f"thorough tier requested: the exploration of the quick tier was run ({THOROUGH_IS_QUICK[pid]})"
    t0 = time.time()
    try:
        mod.run(ctx)
        ctx.part._compact()
    except HarnessError as e:
        print(f"HARNESS-ERROR property={pid} {e}")
        return 2
    except BaseException:
        traceback.print_exc()
        print(f"HARNESS-ERROR property={pid} unexpected exception in check")
        return 2
    wall = time.time() - t0

    known = load_findings()
    fresh, kf = [], []
    for v in ctx.part.violations:
        if (pid, v["key"]) in known:
            kf.append(v)
        else:
            fresh.append(v)
    try:
        path = write_evidence(ctx, wall, len(fresh), mod)
        validate_evidence(path)
    except HarnessError as e:
        print(f"HARNESS-ERROR property={pid} {e}")
        return 2

    for v in kf:
        print(f"KNOWN-FINDING: property={pid} key={v['key']} {v['what']} (x{v.get('n', 1)})")
    rdir = os.path.join(ROOT, "replays", pid)
    for v in fresh:
        os.makedirs(rdir, exist_ok=True)
        name = hashlib.sha1(v["key"].encode()).hexdigest()[:12] + ".json"
        rp = os.path.join(rdir, name)
        with open(rp, "w") as f:
            json.dump({"property": pid, "key": v["key"], "what": v["what"], "case": v["case"]}, f, indent=1, sort_keys=True)
        print(f"VIOLATION property={pid} replay={rp}")
        print(f"  key={v['key']} occurrences={v.get('n', 1)} :: {v['what']}")
    c = ctx.part.counters
    print(
        f"{pid} tier={args.tier} seed={seed} evaluations={c.get('evaluations', 0)} "
        f"states={c.get('states', 0)} transitions={c.get('transitions', 0)} traces={c.get('traces', 0)} "
        f"nontrivial={len(ctx.part.nontrivial)} outcomes={len(ctx.part.outcomes)} "
        f"exhaustive={ctx.exhaustive} violations={len(fresh)} known={len(kf)} wall={wall:.1f}s"
    )
    return 1 if fresh else 0
