"""C12 Matrix updates, join and projection follow their algebraic definition.

Bounded-exhaustive enumeration (E2) of NAryMatrixRelation.set_value_for_assignment (list and dict form), join and
projection on the real code.  The reference model is a plain dict {assignment tuple -> table entry} built by the check
from the same flat table; sums, min and max are Python's.
"""
import itertools

from vf.core.runner import Part

INF = float("inf")
# table entries and set values: zero, a small int, a negative, a float, the int32 border, large magnitudes of both
# signs, +inf (pyDCOP's "hard constraint" cost).  -inf is left out (inf + -inf is not a number).
E = [0, 1, -3, 2.5, 2 ** 31, 2 ** 40, -(2 ** 40), INF]
# variables: str values; a second variable sharing the very same Domain object (a positional swap gives a wrong value,
# not an exception); int values with a falsy one; d=3 mixing int 2 / str "2" / falsy 0; str digits in non-sorted order
DOMS = {"va": ["a", "b"], "vb": ["a", "b"], "v0": [0, 1], "v3": [2, "2", 0], "w": ["1", "0"]}

SET_SCOPES = [[], ["va"], ["v0"], ["v3"], ["va", "v0"], ["v0", "va"], ["vb", "va"], ["v3", "va"], ["va", "v0", "v3"], ["v3", "v0", "va"]]
SET_SCOPES_THOROUGH = [["va", "v0", "v3", "w"]]
PROJ_SCOPES = [["va"], ["v3"], ["va", "v0"], ["v0", "va"], ["vb", "va"], ["va", "v3"], ["v3", "va"], ["va", "v0", "v3"], ["v3", "v0", "va"]]
PROJ_SCOPES_THOROUGH = [["w", "va", "v3", "v0"]]
JOIN_SCOPES = [
    # zero-ary operands
    ([], []), ([], ["va"]), (["va"], []),
    # identical scopes (same and reversed order)
    (["va"], ["va"]), (["va", "v0"], ["va", "v0"]), (["va", "v0"], ["v0", "va"]), (["va", "vb"], ["vb", "va"]),
    # disjoint
    (["va"], ["v0"]), (["vb"], ["va"]), (["v3"], ["va"]), (["va", "v0"], ["v3"]), (["va"], ["v0", "v3"]),
    # nested
    (["va", "v0"], ["v0"]), (["v0"], ["va", "v0"]), (["v3", "va"], ["v3"]), (["va", "v0", "v3"], ["v3", "va"]),
    # overlapping
    (["va", "v0"], ["v0", "v3"]), (["va", "v0"], ["v3", "va"]), (["v3", "v0"], ["va", "v3"]), (["vb", "va"], ["v0", "vb"]),
]
JOIN_SCOPES_THOROUGH = [
    (["va", "v0"], ["v3", "w"]), (["va", "v0", "v3"], ["w", "v0"]), (["w", "va"], ["va", "v0", "v3"]),
    (["va", "v0", "v3", "w"], ["w", "va"]),
]
MODES = ["min", "max"]
CAPS = {  # maximum number of tables (set/projection) or table pairs (join) per scope
    "quick": {"set": 5000, "proj": 8000, "join": 60000},
    "thorough": {"set": 20000, "proj": 300000, "join": 1500000},
}
NSHARDS = {"quick": 16, "thorough": 48}

_VARS = {}


def var(name):
    if name not in _VARS:
        from pydcop.dcop.objects import Domain, Variable

        if "ab" not in _VARS:
            _VARS["ab"] = Domain("d_ab", "", ["a", "b"])
        _VARS[name] = Variable(name, _VARS["ab"] if name in ("va", "vb") else list(DOMS[name]))
    return _VARS[name]


def enc(v):
    return "inf" if v == INF else v


def dec(v):
    return INF if v == "inf" else v


def close(a, b):
    a, b = float(a), float(b)
    if a != a or b != b:
        return False
    if abs(a) == INF or abs(b) == INF:
        return a == b
    return abs(a - b) <= 1e-9 * max(1.0, abs(a), abs(b))


# ---------------------------------------------------------------- table families (flat tuples, row-major)
LEAN_BASES = [0, 2.5, 2 ** 40]


# near ties of large magnitude (relative distance far below any float tolerance): an optimum must still be told from its neighbour
NEAR = [(2 ** 40, 2 ** 40 + 1), (3 * 10 ** 9, 3 * 10 ** 9 - 1), (4e12, 4e12 + 3), (-(2 ** 40), -(2 ** 40) - 1), (2 ** 31, 2 ** 31 + 1), (1e15, 1e15 + 1)]


def fam_size(kind, n):
    k = len(E)
    if kind == "near":
        return 2 * len(NEAR) * ((2 ** n - 2) if n <= 8 else n)
    if kind == "full":
        return k ** n
    if kind == "pair":
        return k + (k * (k - 1) // 2) * (2 ** n - 2)
    return k + 2 * k + len(LEAN_BASES) * (k - 1) * n


def fam_iter(kind, n):
    """full: every table over E.  pair: constant tables + every non-constant table using exactly two entries of E.
    lean: constant tables + 16 cyclic ramps through E + every table 'all cells p except one cell q' (p in LEAN_BASES)."""
    if kind == "full":
        yield from itertools.product(E, repeat=n)
        return
    if kind == "near":  # every two-valued table over a near pair (n <= 8 cells), else a single deviating cell
        for p, q in NEAR:
            for a, b in ((p, q), (q, p)):
                if n <= 8:
                    for pat in range(1, 2 ** n - 1):
                        yield tuple(b if (pat >> c) & 1 else a for c in range(n))
                else:
                    for pos in range(n):
                        yield tuple(b if c == pos else a for c in range(n))
        return
    for e in E:
        yield (e,) * n
    if kind == "pair":
        for i in range(len(E)):
            for j in range(i + 1, len(E)):
                for pat in range(1, 2 ** n - 1):
                    yield tuple(E[j] if (pat >> c) & 1 else E[i] for c in range(n))
        return
    for step in (1, 3):
        for rot in range(len(E)):
            yield tuple(E[(rot + step * c) % len(E)] for c in range(n))
    for p in LEAN_BASES:
        for q in E:
            if q != p:
                for pos in range(n):
                    yield tuple(q if c == pos else p for c in range(n))


def chain(n):
    """Families available for n cells, richest first, strictly decreasing in size."""
    out = []
    for kind, ok in (("full", n <= 6), ("pair", n <= 12), ("lean", True)):
        if ok and (not out or fam_size(kind, n) < fam_size(out[-1], n)):
            out.append(kind)
    return out


def pick_single(n, cap):
    for kind in chain(n):
        if fam_size(kind, n) <= cap:
            return kind
    return chain(n)[-1]


def pick_pair(n1, n2, cap):
    c1, c2 = chain(n1), chain(n2)
    i1 = i2 = 0
    while fam_size(c1[i1], n1) * fam_size(c2[i2], n2) > cap:
        first_larger = fam_size(c1[i1], n1) > fam_size(c2[i2], n2)
        if first_larger and i1 + 1 < len(c1):
            i1 += 1
        elif i2 + 1 < len(c2):
            i2 += 1
        elif i1 + 1 < len(c1):
            i1 += 1
        else:
            break
    return c1[i1], c2[i2]


def ncells(scope):
    n = 1
    for v in scope:
        n *= len(DOMS[v])
    return n


def assignments(scope):
    return list(itertools.product(*[DOMS[v] for v in scope]))


def nested(flat, shape):
    if not shape:
        return flat[0]
    if len(shape) == 1:
        return list(flat)
    step = len(flat) // shape[0]
    return [nested(flat[i * step:(i + 1) * step], shape[1:]) for i in range(shape[0])]


def show(scope, flat):
    return nested(flat, [len(DOMS[v]) for v in scope])


def build(scope, flat, name):
    """The real relation and the reference model (dict) of the same table."""
    from pydcop.dcop.relations import NAryMatrixRelation

    rel = NAryMatrixRelation([var(v) for v in scope], nested(flat, [len(DOMS[v]) for v in scope]), name=name)
    return rel, dict(zip(assignments(scope), flat))


def read(rel, names, asg):
    """Value of a relation at a full assignment, through the documented dict form."""
    return rel.get_value_for_assignment(dict(zip(names, asg)))


def scope_kind(s1, s2):
    a, b = set(s1), set(s2)
    if not a or not b:
        return "zero-ary"
    if a == b:
        return "identical"
    if not (a & b):
        return "disjoint"
    if a <= b or b <= a:
        return "nested"
    return "overlapping"


# ---------------------------------------------------------------- one case of each operation
def build_from(scope, flat, origin):
    """The relation under test as the library itself produces it: 'zero' = NAryMatrixRelation(variables) without a table
    (all-zero tables only), 'join' = join(table relation, zero relation over the same scope), 'proj' = projection of a
    relation over scope + one more variable whose two slices both equal the table."""
    from pydcop.dcop.relations import NAryMatrixRelation, join, projection

    rel, ref = build(scope, flat, "r")
    if origin == "zero":
        return NAryMatrixRelation([var(v) for v in scope], name="r"), ref
    if origin == "join":
        return join(rel, NAryMatrixRelation([var(v) for v in scope], name="z")), ref
    extra = [v for v in DOMS if v not in scope][0]
    big = NAryMatrixRelation([var(v) for v in scope] + [var(extra)], nested([e for e in flat for _ in DOMS[extra]], [len(DOMS[v]) for v in scope] + [len(DOMS[extra])]), name="b")
    return projection(big, var(extra), "min"), ref


def check_set(part, scope, flat, ai, form, value, origin="table"):
    """set_value_for_assignment on one (table, assignment, call form, value).  Returns what was observed."""
    if origin == "table":
        rel, ref = build(scope, flat, "r")
    else:
        rel, ref = build_from(scope, flat, origin)
        if [v.name for v in rel.dimensions] != list(scope):
            return {"skipped": "dimension order of the derived relation differs"}
    asgs = assignments(scope)
    target = asgs[ai]
    pairs = list(zip(scope, target))
    arg = list(target) if form == "list" else dict(pairs) if form == "dict" else dict(reversed(pairs))
    case = {"op": "set", "scope": scope, "table": [enc(e) for e in flat], "ai": ai, "form": form, "value": enc(value), "origin": origin}
    call = f"NAryMatrixRelation({scope}, {show(scope, flat)}){'' if origin == 'table' else ' [obtained by ' + origin + ']'}.set_value_for_assignment({arg!r}, {value!r})"
    int_table_float_value = all(type(e) is int for e in flat) and (value == INF or value != int(value))
    before = rel._m.tobytes()
    try:
        new = rel.set_value_for_assignment(arg, value)
        names = [v.name for v in new.dimensions]
        got_new = {a: read(new, scope, a) for a in asgs} if names == scope else None
        got_old = {a: read(rel, scope, a) for a in asgs}
    except Exception as e:  # noqa
        if int_table_float_value and isinstance(e, (OverflowError, ValueError)):
            key = "set_value|int-table-cannot-hold-non-integer-value"
        else:
            key = f"set_value|raised|{type(e).__name__}|form={form.split('_')[0]}"
        part.violation(key, f"{call} raised {e!r}", case)
        return {"raised": repr(e)}
    f = form.split("_")[0]
    if new is rel:
        part.violation("set_value|same-object-returned", f"{call} returned the relation itself, not a new one", case)
    if rel._m.tobytes() != before or any(not close(got_old[a], ref[a]) for a in asgs):
        part.violation(f"set_value|original-modified|form={f}" + ("" if origin == "table" else "|origin=" + origin),
                       f"{call} changed the original: now {[got_old[a] for a in asgs]}, was {list(flat)}", case)
    if got_new is None:
        part.violation("set_value|dimensions-changed", f"{call} has dimensions {names}, original {scope}", case)
        return {"dimensions": names}
    if new.name != rel.name and origin == "table":
        part.violation("set_value|name-changed", f"{call} is named {new.name!r}, original {rel.name!r}", case)
    others = [a for a in asgs if a != target and not close(got_new[a], ref[a])]
    if others:
        part.violation(f"set_value|other-cell-changed|form={f}",
                       f"{call} differs from the original at {others} (not the assignment): "
                       f"got {[got_new[a] for a in others]} expected {[ref[a] for a in others]}", case)
    if not close(got_new[target], value):
        if int_table_float_value and (close(got_new[target], int(value)) if value != INF else True):
            key = "set_value|int-table-cannot-hold-non-integer-value"
        else:
            key = f"set_value|target-cell-wrong|form={f}"
        part.violation(key, f"{call} has value {got_new[target]!r} at the assignment, expected {value!r}", case)
    return {"new": [got_new[a] for a in asgs], "original_after": [got_old[a] for a in asgs]}


def check_join(part, s1, t1, s2, t2):
    from pydcop.dcop.relations import join

    u1, ref1 = build(s1, t1, "u1")
    u2, ref2 = build(s2, t2, "u2")
    union = s1 + [v for v in s2 if v not in s1]
    case = {"op": "join", "s1": s1, "t1": [enc(e) for e in t1], "s2": s2, "t2": [enc(e) for e in t2]}
    call = f"join(NAryMatrixRelation({s1}, {show(s1, t1)}), NAryMatrixRelation({s2}, {show(s2, t2)}))"
    kind = scope_kind(s1, s2)
    try:
        j = join(u1, u2)
        names = [v.name for v in j.dimensions]
        if sorted(names) != sorted(union):
            part.violation(f"join|scope|scopes={kind}", f"{call} is defined over {names}, expected the union {union}", case)
            return {"dimensions": names}
        got = {a: read(j, names, a) for a in assignments(names)}
    except Exception as e:  # noqa
        part.violation(f"join|raised|{type(e).__name__}|scopes={kind}", f"{call} raised {e!r}", case)
        return {"raised": repr(e)}
    bad = []
    for a in assignments(names):
        d = dict(zip(names, a))
        exp = ref1[tuple(d[v] for v in s1)] + ref2[tuple(d[v] for v in s2)]
        if not close(got[a], exp):
            bad.append((d, got[a], exp))
    if bad:
        d, g, x = bad[0]
        part.violation(f"join|value|scopes={kind}", f"{call} at {d} is {g!r}, expected u1+u2 = {x!r} ({len(bad)} assignments differ)", case)
    return {"dimensions": names, "values": [got[a] for a in assignments(names)]}


def check_proj(part, scope, flat, x, mode):
    from pydcop.dcop.relations import projection

    rel, ref = build(scope, flat, "u")
    rest = [v for v in scope if v != x]
    case = {"op": "proj", "scope": scope, "table": [enc(e) for e in flat], "var": x, "mode": mode}
    call = f"projection(NAryMatrixRelation({scope}, {show(scope, flat)}), {x}, {mode!r})"
    try:
        p = projection(rel, var(x), mode)
        names = [v.name for v in p.dimensions]
        if sorted(names) != sorted(rest):
            part.violation("projection|scope", f"{call} is defined over {names}, expected {rest}", case)
            return {"dimensions": names}
        got = {a: read(p, names, a) for a in assignments(names)}
    except Exception as e:  # noqa
        part.violation(f"projection|raised|{type(e).__name__}|mode={mode}", f"{call} raised {e!r}", case)
        return {"raised": repr(e)}
    opt = min if mode == "min" else max
    bad, sentinel = [], False
    for a in assignments(names):
        d = dict(zip(names, a))
        col = [ref[tuple(xv if v == x else d[v] for v in scope)] for xv in DOMS[x]]
        exp = opt(col)
        # min / max return one of the entries: exact comparison (a relative tolerance would hide a near tie of large magnitude)
        if not (close(got[a], exp) and float(got[a]) == float(exp)):
            bad.append((d, got[a], exp, col))
            # every value along x is beyond the int32 range and the int32 bound itself comes back
            if (mode == "min" and got[a] == 2 ** 31 - 1 and exp > got[a]) or (mode == "max" and got[a] == -(2 ** 31) and exp < got[a]):
                sentinel = True
    if bad:
        d, g, e, col = bad[0]
        key = "projection|int32-start-value-returned" if sentinel else f"projection|value|mode={mode}"
        part.violation(key, f"{call} at {d} is {g!r}, expected {mode}{col} = {e!r} ({len(bad)} assignments differ)", case)
    return {"dimensions": names, "values": [got[a] for a in assignments(names)]}


# ---------------------------------------------------------------- enumeration
def summary(values):
    vals = [float(v) for v in values]
    return (min(vals), max(vals), len(set(vals)))


def forms_for(scope):
    return ["list", "dict"] + (["dict_rev"] if len(scope) >= 2 else [])


def shard(item):
    op, idx, spec, sh, nsh = item
    part = Part()
    if op == "set":
        scope, kind = spec
        asgs = assignments(scope)
        for ti, flat in enumerate(fam_iter(kind, len(asgs))):
            if ti % nsh != sh:
                continue
            for ai in range(len(asgs)):
                for form in forms_for(scope):
                    for value in E:
                        obs = check_set(part, scope, flat, ai, form, value)
                        part.count("evaluations")
                        part.count("set_cases")
                        if not close(flat[ai], value):  # the update is observable
                            part.count("nontrivial_cases")
                            part.nontriv(("set", idx, ti, ai))
                        new = obs.get("new")
                        part.outcome(("set", idx, form, enc(value), summary(new) if new else sorted(obs)))
                # the same update on relations the library produced itself (a table it allocated, a join, a projection)
                if all(e != INF for e in flat) and (ti % 16 == 0 or not any(flat)):
                    for origin in ("join", "proj") + (("zero",) if not any(flat) else ()):
                        for form in ("list", "dict"):
                            for value in (E[1], E[3]):
                                obs = check_set(part, scope, flat, ai, form, value, origin)
                                part.count("evaluations")
                                part.count("set_cases_on_derived_relations")
                                part.outcome(("set", idx, origin, form, enc(value), sorted(obs)[:2]))
    elif op == "proj":
        scope, kind = spec
        n = ncells(scope)
        for ti, flat in enumerate(fam_iter(kind, n)):
            if ti % nsh != sh:
                continue
            for x in scope:
                for mode in MODES:
                    obs = check_proj(part, scope, flat, x, mode)
                    part.count("evaluations")
                    part.count("projection_cases")
                    vals = obs.get("values")
                    # the optimisation matters: min and max along x differ somewhere, so the other mode, or
                    # taking any fixed value of x, would give another relation
                    if vals is not None and len(set(map(float, flat))) > 1 and _x_matters(scope, flat, x):
                        part.count("nontrivial_cases")
                        part.nontriv(("proj", idx, ti))
                    part.outcome(("proj", idx, x, mode, summary(vals) if vals else sorted(obs)))
    else:
        s1, k1, s2, k2 = spec
        n1, n2 = ncells(s1), ncells(s2)
        for i1, t1 in enumerate(fam_iter(k1, n1)):
            if i1 % nsh != sh:
                continue
            nc1 = len(set(map(float, t1))) > 1 or n1 == 1
            for t2 in fam_iter(k2, n2):
                obs = check_join(part, s1, t1, s2, t2)
                part.count("evaluations")
                part.count("join_cases")
                vals = obs.get("values")
                # both operands contribute something that depends on the assignment (or are zero-ary constants != 0)
                if nc1 and (len(set(map(float, t2))) > 1 or n2 == 1) and any(t1) and any(t2):
                    part.count("nontrivial_cases")
                    part.nontriv(("join", idx, i1))
                part.outcome(("join", idx, summary(vals) if vals else sorted(obs)))
    return part


def _x_matters(scope, flat, x):
    ref = dict(zip(assignments(scope), flat))
    rest = [v for v in scope if v != x]
    for a in assignments(rest):
        d = dict(zip(rest, a))
        col = [float(ref[tuple(xv if v == x else d[v] for v in scope)]) for xv in DOMS[x]]
        if min(col) != max(col):
            return True
    return False


def plan(tier):
    caps = CAPS[tier]
    thorough = tier == "thorough"
    jobs, text = [], []
    for i, scope in enumerate(SET_SCOPES + (SET_SCOPES_THOROUGH if thorough else [])):
        kind = pick_single(ncells(scope), caps["set"])
        jobs.append(("set", i, (scope, kind)))
        text.append(f"set{scope}:{kind}")
    for i, scope in enumerate(PROJ_SCOPES + (PROJ_SCOPES_THOROUGH if thorough else [])):
        kind = pick_single(ncells(scope), caps["proj"])
        jobs.append(("proj", i, (scope, kind)))
        text.append(f"proj{scope}:{kind}")
        jobs.append(("proj", 100 + i, (scope, "near")))
        text.append(f"proj{scope}:near")
    for i, (s1, s2) in enumerate(JOIN_SCOPES + (JOIN_SCOPES_THOROUGH if thorough else [])):
        k1, k2 = pick_pair(ncells(s1), ncells(s2), caps["join"])
        jobs.append(("join", i, (s1, k1, s2, k2)))
        text.append(f"join{s1}:{k1}x{s2}:{k2}")
    return jobs, text


def run(ctx):
    ctx.level = "exploration"
    jobs, text = plan(ctx.tier)
    nsh = NSHARDS[ctx.tier]
    ctx.rule = (
        f"entries/set values E={[enc(e) for e in E]}; variables {DOMS}. For every listed scope (or ordered scope pair) every "
        "table of the stated family is built as a real NAryMatrixRelation (family = the richest of: full = all tables over E; "
        "pair = constant tables + all tables using exactly two entries of E; near (projection only, in addition) = all two-valued tables over pairs of "
        f"large near-equal entries {NEAR}, compared exactly; lean = constants + 16 cyclic ramps + all "
        f"one-cell-deviating tables, whose size fits the per-scope cap {CAPS[ctx.tier]}; for join the larger family is "
        "stepped down first). set: every table x every assignment x {list, dict, dict with reversed key order} x every "
        "value of E; projection: every table x every scope variable x {min,max}; join: every table pair. Every result is "
        "read back on EVERY assignment with get_value_for_assignment(dict) and compared with a dict model (sum / min / max "
        "in Python; tolerance 1e-9 relative). Plan: " + " ".join(text) + ". Non-trivial: set = the new value differs from "
        "the old one at the cell; projection = min and max along x differ for some remaining assignment; join = both "
        "tables are non-constant and not all-zero. distinct_nontrivial counts distinct (scope, table, cell) for set and "
        "distinct (scope, first table) for projection/join; nontrivial_cases counts every such case."
    )
    ctx.assumptions = [
        "Relations are observed through get_value_for_assignment(dict) (C11 covers the equivalence of the call forms); "
        "only the byte-identity of the original table after set_value_for_assignment reads the private array _m.",
        "The order of the dimensions of join()/projection() results is not judged (the property defines scopes as sets).",
        "Operands are NAryMatrixRelation built from nested Python lists (int64 when all entries are ints, float64 otherwise).",
    ]
    # three fixed, written-out cases (not counted)
    scratch = Part()
    ctx.part.sample({"op": "set", "scope": ["va", "v0"], "table": [0, 1, -3, 2.5], "assignment": ["b", 0], "form": "dict_rev",
                     "value": 2 ** 40, "observed": check_set(scratch, ["va", "v0"], (0, 1, -3, 2.5), 2, "dict_rev", 2 ** 40)})
    ctx.part.sample({"op": "join", "s1": ["va", "v0"], "t1": [0, 1, -3, 2.5], "s2": ["v3", "va"], "t2": [1, 0, 2 ** 31, 2.5, 1, -3],
                     "observed": check_join(scratch, ["va", "v0"], (0, 1, -3, 2.5), ["v3", "va"], (1, 0, 2 ** 31, 2.5, 1, -3))})
    ctx.part.sample({"op": "proj", "scope": ["va", "v3"], "table": [0, 1, -3, 2.5, 1, -3], "var": "va", "mode": "min",
                     "observed": check_proj(scratch, ["va", "v3"], (0, 1, -3, 2.5, 1, -3), "va", "min")})
    items = [(op, idx, spec, sh, nsh) for op, idx, spec in jobs for sh in range(nsh)]
    ctx.pmap(shard, ctx.rotate(items))


def replay(case):
    part = Part()
    if case["op"] == "set":
        obs = check_set(part, list(case["scope"]), tuple(dec(e) for e in case["table"]), case["ai"], case["form"], dec(case["value"]), case.get("origin", "table"))
    elif case["op"] == "join":
        obs = check_join(part, list(case["s1"]), tuple(dec(e) for e in case["t1"]), list(case["s2"]), tuple(dec(e) for e in case["t2"]))
    else:
        obs = check_proj(part, list(case["scope"]), tuple(dec(e) for e in case["table"]), case["var"], case["mode"])
    print("case    :", case)
    print("observed:", obs)
    for v in part.violations:
        print(v["key"], "::", v["what"])
    return bool(part.violations)
