"""C28 Algorithm parameters are validated and completed exactly.

Bounded-exhaustive enumeration (E2) of user-supplied parameter sets for every shipped algorithm (plus the
parameter definitions written in the pydcop.algorithms docstrings), pushed through the real
check_param_value / prepare_algo_params / AlgorithmDef.build_with_default_param / build_algo_def and compared
with a small reference `prepare` written here.

Reference (oracle = the property text):
* unknown name, or a 'name:value' entry without ':'                         -> must be rejected
* value of the declared python type (and in `values` if any)               -> accepted unchanged
* int given for a float parameter                                          -> accepted as float(value)
* str in canonical decimal notation given for an int / float parameter     -> accepted as int(s) / float(s)
* str parameter: non-str value, or str outside `values`                    -> must be rejected
* int / float parameter: value that Python's int() and float() both refuse   -> must be rejected
* anything else Python's int()/float() would take (bool, ' 7 ', '1_0', 2.5 or '1.5' for an int, b'7', 'inf')
  is LENIENT: the property does not say; it may be rejected, and if accepted the result must have the declared type
* accepted case: result keys == declared names, supplied values as above, all others == declared defaults
* "rejected with an error" = an Exception, or SystemExit with a non-zero status (CLI helper)
"""
import contextlib
import itertools
import re

from vf.core.runner import Part

NSLICES = 16
ABSENT = "<absent>"

# parameter definitions that the pydcop.algorithms docstrings themselves use (check_param_value,
# prepare_algo_params), plus a str parameter without `values` ("Can be None if non-applicable")
SYNTHETIC = {
    "doc_example": [
        ("p1", "str", ["1", "2"], "1"),
        ("p2", "int", None, 5),
        ("p3", "float", None, 0.5),
        ("p", "int", None, None),
        ("label", "str", None, "x"),
    ]
}

INT_FULL = [7, 0, -3, 2 ** 31, 2 ** 40, "7", "0", "-3", str(2 ** 62 + 1), "abc", "", "7x", None, [7],  # 2^62+1: not representable as a float
            True, 2.0, 2.5, "1.5", " 7 ", "1_0", "+4", b"7"]
FLOAT_FULL = [0.5, 0.0, -1.5, 1e300, float("inf"), 3, 0, 2 ** 40, "0.5", "3", "-1.5", "1e-3", ".5",
              "abc", "", "0,5", None, [0.5], True, " 0.5 ", "inf", "nan", b"1"]
INT_CORE = [7, "7", "abc", None]
FLOAT_CORE = [0.5, "0.5", 3, "abc"]

RE_INT = re.compile(r"-?[0-9]+\Z")
RE_FLOAT = re.compile(r"-?([0-9]+(\.[0-9]*)?|\.[0-9]+)([eE][-+]?[0-9]+)?\Z")


# ---------------------------------------------------------------- reference model

def classify(d, v):
    """(class, expected) for value v given to parameter definition d=(name,type,values,default).
    class in typed / str-num / int-for-float -> must be accepted with `expected`;
    class 'lenient' -> unspecified; any other class -> must be rejected."""
    _, typ, values, _ = d
    if typ == "str":
        if type(v) is not str:
            return "wrong-type", None
        if values is not None and v not in values:
            return "out-of-values", None
        return "typed", v
    conv, regex = (int, RE_INT) if typ == "int" else (float, RE_FLOAT)
    if type(v) is conv:
        return "typed", v
    if typ == "float" and type(v) is int:
        return "int-for-float", float(v)
    if type(v) is str and regex.match(v):
        return "str-num", conv(v)
    for c in (conv, float):  # '1.5' for an int: refused by int(), but a tolerant reading (1? 2?) is not excluded
        try:
            c(v)
            return "lenient", None
        except (ValueError, TypeError, OverflowError):
            pass
    return ("unparsable-str" if type(v) is str else "wrong-type"), None


ACCEPT = ("typed", "str-num", "int-for-float")


def ref_prepare(defs, entries):
    """The boring reference: ('reject', [culprit classes]) or ('accept', {name: value}, {lenient names})."""
    by_name = {d[0]: d for d in defs}
    culprits, out, lenient = [], {}, set()
    for name, v in entries:
        if name not in by_name:
            culprits.append("unknown-name")
            continue
        cls, exp = classify(by_name[name], v)
        if cls in ACCEPT:
            out[name] = exp
        elif cls == "lenient":
            lenient.add(name)
        else:
            culprits.append(by_name[name][1] + ":" + cls)
    if culprits:
        return ("reject", culprits)
    for d in defs:
        if d[0] not in out and d[0] not in lenient:
            out[d[0]] = d[3]
    return ("accept", out, lenient)


def parse_cli(raw):
    """'name:value' strings -> entries, or None when an entry is not of that form (must be rejected)."""
    entries = []
    for e in raw:
        if ":" not in e:
            return None
        name, _, value = e.partition(":")
        entries.append((name, value))
    return entries


def same(a, b):
    if type(a) is not type(b):
        return False
    if isinstance(a, float):
        if a != a or b != b:
            return a != a and b != b
        if a in (float("inf"), float("-inf")) or b in (float("inf"), float("-inf")):
            return a == b
        return abs(a - b) <= 1e-9 * max(1, abs(a), abs(b))
    return a == b


# ---------------------------------------------------------------- alphabet

def menus(defs, level, cli):
    """Value menu of every declared parameter, simplest first."""
    out = []
    for name, typ, values, _ in defs:
        if typ == "int":
            m = INT_FULL if level == "full" else INT_CORE
        elif typ == "float":
            m = FLOAT_FULL if level == "full" else FLOAT_CORE
        elif values:
            foreign = [x for d in defs if d[1] == "str" and d[2] for x in d[2] if x not in values][:1]
            if level == "full":
                m = (list(values) + ["Z", "", values[0].swapcase(), values[0] + " ", "A:B"] + foreign
                     + [3, 0, None, [values[0]], True, 0.5, values[0].encode()])
            else:
                m = [values[-1], "Z", 3]
        else:
            m = ["x", "", "A:B", "Z z", 3, None, ["x"]] if level == "full" else ["x", 3]
        if cli:
            seen, ms = set(), []
            for v in m:
                if type(v) in (str, int, float):
                    s = v if type(v) is str else str(v)
                    if s not in seen:
                        seen.add(s)
                        ms.append(s)
            m = ms
        out.append(list(m))
    return out


def unknown_entries(defs, foreign, level):
    """Entries that no definition of this algorithm declares: (name, value) pairs."""
    names = [d[0] for d in defs]
    out = [("foo", 1)]
    if level == "core":
        return out
    if foreign is not None:
        out.append(foreign)  # declared by another shipped algorithm, with one of its valid values
    if names:
        d = defs[0]
        valid = d[2][0] if d[2] else (d[3] if d[3] is not None else 1)
        out.append((names[0].upper(), valid))
        out.append((names[0] + " ", valid))
    out.append(("", 1))
    return out


def gen_cases(defs, foreign, cli, kmax, unk_level):
    """All cases of one algorithm, as tuples of entries ((name, value) pairs; raw strings for the CLI).
    Family A: every subset of <= kmax parameters, each over its FULL menu. Family B (more than kmax parameters
    supplied): every parameter absent or over its CORE menu. Both times the unknown-name slot: absent or one entry."""
    names = [d[0] for d in defs]
    n = len(defs)
    full, core = menus(defs, "full", cli), menus(defs, "core", cli)

    def render(entries):
        if not cli:
            return tuple(entries)
        return tuple("%s:%s" % (nm, v) for nm, v in entries)

    unk_full = [[u] for u in unknown_entries(defs, foreign, unk_level)]
    unk_core = [[u] for u in unknown_entries(defs, foreign, "core")]
    if cli:
        # entries that are not of the form name:value
        bad = [names[0], names[0] + "=1"] if names else ["foo"]
        unk_full = unk_full + ([[b] for b in bad] if unk_level == "full" else [[bad[0]]])

    def with_unknown(base, unks):
        yield render(base)
        for u in unks:
            if isinstance(u[0], str):  # raw malformed CLI entry
                yield render(base) + (u[0],)
            else:
                yield render(list(base) + u)

    for r in range(0, min(kmax, n) + 1):
        for idxs in itertools.combinations(range(n), r):
            for vals in itertools.product(*[full[i] for i in idxs]):
                base = [(names[i], v) for i, v in zip(idxs, vals)]
                yield from with_unknown(base, unk_full)
    if n > kmax:
        for choice in itertools.product(*[[ABSENT] + core[i] for i in range(n)]):
            base = [(names[i], v) for i, v in enumerate(choice) if v is not ABSENT]
            if len(base) > kmax:
                yield from with_unknown(base, unk_core)


# ---------------------------------------------------------------- the code under test

class _Null:
    def write(self, s):
        return len(s)

    def flush(self):
        pass


_NULL = _Null()
_WORLD = {}


def world():
    """Real definitions of every algorithm + snapshot of them as plain tuples (the reference's input)."""
    if _WORLD:
        return _WORLD
    from pydcop.algorithms import AlgoParameterDef, list_available_algorithms, load_algorithm_module

    algos = {}
    for a in sorted(list_available_algorithms()):
        mod = load_algorithm_module(a)
        real = mod.algo_params
        snap = [(d.name, d.type, None if d.values is None else list(d.values), d.default_value) for d in real]
        algos[a] = {"module": mod, "real": real, "snap": snap, "synthetic": False}
    for a, snap in SYNTHETIC.items():
        real = [AlgoParameterDef(*d) for d in snap]
        algos[a] = {"module": None, "real": real, "snap": [tuple(d) for d in snap], "synthetic": True}
    # a parameter of another shipped algorithm, with a valid value, for the unknown-name slot
    for a, w in algos.items():
        own = {d[0] for d in w["snap"]}
        w["foreign"] = None
        for b in sorted(algos):
            cand = [d for d in algos[b]["snap"] if d[0] not in own and not algos[b]["synthetic"]]
            if cand:
                d = cand[0]
                w["foreign"] = (d[0], d[2][0] if d[2] else d[3])
                break
    _WORLD.update(algos)
    return _WORLD


def observe(fn):
    try:
        return ("ok", fn())
    except SystemExit as e:
        return ("exit", e.code)
    except Exception as e:  # noqa
        return ("err", type(e).__name__, str(e).split("\n")[0][:100])


def canon_obs(obs):
    """Observation without what legitimately varies (dict order, message text)."""
    if obs[0] == "ok" and isinstance(obs[1], dict):
        return ("ok", sorted(((k, type(v).__name__, repr(v)) for k, v in obs[1].items()), key=repr))
    return obs[:2]


def rejected(obs):
    return obs[0] == "err" or (obs[0] == "exit" and obs[1] not in (0, None))


def call(route, algo, entries, raw=None):
    """One call of the real code. entries = [(name, value)], raw = CLI strings (route 'build_algo_def')."""
    from pydcop.algorithms import AlgorithmDef, check_param_value, prepare_algo_params

    w = world()[algo]
    if route == "check_param_value":
        (name, v), = entries
        d = [x for x in w["real"] if x.name == name][0]
        return observe(lambda: {name: check_param_value(v, d)})
    if route == "prepare_algo_params":
        return observe(lambda: prepare_algo_params(dict(entries), w["real"]))
    if route == "build_with_default_param":
        kw = {"parameters_definitions": w["real"]} if w["synthetic"] else {}
        return observe(lambda: AlgorithmDef.build_with_default_param(algo, dict(entries), "min", **kw).params)
    if route == "build_with_default_param[None]":  # the documented default: no dict at all
        kw = {"parameters_definitions": w["real"]} if w["synthetic"] else {}
        return observe(lambda: AlgorithmDef.build_with_default_param(algo, None, "min", **kw).params)
    if route in ("build_algo_def", "build_algo_def[None]"):
        from pydcop.commands._utils import build_algo_def

        cli = None if route.endswith("[None]") else list(raw)
        with contextlib.redirect_stdout(_NULL):
            return observe(lambda: build_algo_def(w["module"], algo, "min", cli).params)
    raise ValueError(route)


def judge(defs, expected, obs, supplied, single=False):
    """None, or (kind, [detail tokens]) when the observation contradicts the reference."""
    if obs[0] == "exit" and obs[1] in (0, None):
        return ("exit-status-0", [])
    if expected[0] == "reject":
        if rejected(obs):
            return None
        return ("accepted-invalid", sorted(set(expected[1])))
    _, exp, lenient = expected
    if rejected(obs):
        if lenient:
            return None
        return ("rejected-valid", [obs[1] if obs[0] == "err" else "SystemExit"])
    got = obs[1]
    by_name = {d[0]: d for d in defs}
    if single:  # check_param_value: one value
        exp = {k: v for k, v in exp.items() if k in supplied}
    bad = []
    if not isinstance(got, dict):
        return ("wrong-result", ["not-a-dict"])
    for k in sorted(set(got) | set(exp) | lenient, key=repr):
        if k not in got:
            bad.append("missing-key" + ("" if k in supplied else "-default"))
        elif k in lenient:
            if type(got[k]).__name__ != by_name[k][1]:
                bad.append(by_name[k][1] + ":lenient:result-type")
        elif k not in exp:
            bad.append("extra-key")
        elif not same(got[k], exp[k]):
            what = "type-" + type(got[k]).__name__ if type(got[k]) is not type(exp[k]) else "value"
            if k in supplied:
                bad.append(by_name[k][1] + ":" + classify(by_name[k], supplied[k])[0] + ":" + what)
            else:
                bad.append("default:" + what)
    return ("wrong-result", sorted(set(bad))) if bad else None


def evaluate(algo, cli, case, part=None, probe=True):
    """Push one case through every route, lowest level first; stop at the first route that contradicts the
    reference. Returns (violation or None, outcome token, log)."""
    w = world()[algo]
    defs = w["snap"]
    entries = parse_cli(case) if cli else list(case)
    log = []
    routes = []
    if entries is not None:
        for e in entries:
            if e[0] in {d[0] for d in defs}:
                routes.append(("check_param_value", [e]))
        routes.append(("prepare_algo_params", entries))
        routes.append(("build_with_default_param", entries))
        if not entries:
            routes.append(("build_with_default_param[None]", entries))
    if cli and not w["synthetic"]:
        routes.append(("build_algo_def", entries))
        if not case:
            routes.append(("build_algo_def[None]", entries))
    outcome = None
    for route, ents in routes:
        expected = ("reject", ["malformed-entry"]) if ents is None else ref_prepare(defs, ents)
        obs = call(route, algo, ents, raw=case)
        if part is not None:
            part.count("calls_" + route)
        log.append((route, list(case) if route.startswith("build_algo_def") else ents, expected, obs))
        supplied = dict(ents) if ents is not None else {}
        verdict = judge(defs, expected, obs, supplied, single=(route == "check_param_value"))
        outcome = (route, canon_obs(obs))
        if verdict is None:
            continue
        kind, detail = verdict
        if kind == "rejected-valid":
            by_name = {d[0]: d for d in defs}
            detail.append("+".join(sorted({by_name[n][1] + ":" + classify(by_name[n], v)[0] for n, v in ents})) or "no-parameter")
        key = "|".join([route, kind] + detail)
        if probe and len(case) >= 2 and route != "check_param_value":
            # root cause: does an entry of this case already fail on its own? then it is that defect
            alone = [evaluate(algo, cli, (e,), None, probe=False)[0] for e in case]
            alone = sorted(v["key"] for v in alone if v)
            key = alone[0] if alone else key + "|combination"
        shown = log[-1][1]
        exp_shown = expected[1]
        if route == "check_param_value" and expected[0] == "accept":
            exp_shown = {k: v for k, v in expected[1].items() if k in supplied}
        what = (f"{algo}: {route} with {shown!r} -> {obs!r}; the reference says "
                f"{expected[0]} {exp_shown!r}" + (f" (unspecified: {sorted(expected[2])})" if expected[0] == "accept" and expected[2] else ""))
        return ({"key": key, "what": what}, outcome, log)
    return (None, outcome, log)


# ---------------------------------------------------------------- JSON codec for replay cases

def enc(v):
    if v is None:
        return ["none"]
    t = type(v).__name__
    if t == "bool":
        return ["bool", int(v)]
    if t == "int":
        return ["int", str(v)]
    if t == "float":
        return ["float", repr(v)]
    if t == "str":
        return ["str", v]
    if t == "bytes":
        return ["bytes", v.decode("latin1")]
    if t == "list":
        return ["list", [enc(x) for x in v]]
    raise TypeError(t)


def dec(e):
    t = e[0]
    if t == "none":
        return None
    if t == "bool":
        return bool(e[1])
    if t == "int":
        return int(e[1])
    if t == "float":
        return float(e[1])
    if t == "str":
        return e[1]
    if t == "bytes":
        return e[1].encode("latin1")
    if t == "list":
        return [dec(x) for x in e[1]]
    raise TypeError(t)


def case_json(algo, cli, case):
    if cli:
        return {"algo": algo, "cli": list(case)}
    return {"algo": algo, "entries": [[n, enc(v)] for n, v in case]}


# ---------------------------------------------------------------- exploration

def plan(quick):
    kmax = 2 if quick else 3
    unk = "core" if quick else "full"
    return kmax, unk


def job_cases(algo, cli, quick):
    """Cases of one (algorithm, family) job in supplied order: each case forwards then (2+ entries) backwards."""
    kmax, unk = plan(quick)
    w = world()[algo]
    for case in gen_cases(w["snap"], w["foreign"], cli, kmax, unk):
        yield case
        if len(case) >= 2:
            yield tuple(reversed(case))


def jobs(quick):
    """(algo, cli, idx, n): algorithms by name, API then CLI family; jobs of algorithms with 3+ parameters are cut
    in n slices by case index modulo n."""
    out = []
    for algo in sorted(world()):
        w = world()[algo]
        n = NSLICES if len(w["snap"]) >= 3 else 1
        for cli in (False, True):
            if cli and w["synthetic"]:
                continue
            out.extend((algo, cli, idx, n, quick) for idx in range(n))
    return out


def raw_module_note(part):
    """Observation only (not in the alphabet: load_algorithm_module is the documented loader and always sets
    algo_params): build_algo_def's branch for modules without algo_params."""
    import importlib.util
    import os
    import pydcop.algorithms as pa
    from pydcop.commands._utils import build_algo_def

    spec = importlib.util.spec_from_file_location("c28_raw_dpop", os.path.join(os.path.dirname(pa.__file__), "dpop.py"))
    mod = importlib.util.module_from_spec(spec)
    spec.loader.exec_module(mod)
    if hasattr(mod, "algo_params"):
        return
    with contextlib.redirect_stdout(_NULL):
        obs = observe(lambda: build_algo_def(mod, "dpop", "min", None).params)
    part.notes.append("observation (outside the alphabet): build_algo_def(<dpop module not loaded through "
                      f"load_algorithm_module, no algo_params attribute>, 'dpop', 'min', None) -> {obs!r}")


def shard(args):
    algo, cli, idx, n, quick = args
    part = Part()
    if algo == "dpop" and cli:
        raw_module_note(part)
    for i, case in enumerate(job_cases(algo, cli, quick)):
        if i % n != idx:
            continue
        viol, outcome, log = evaluate(algo, cli, case, part)
        part.count("evaluations")
        part.count("cases_cli" if cli else "cases_api")
        if len(case) >= 1:
            part.nontriv((algo, cli, repr(case)))
        part.maxi("supplied_entries", len(case))
        expected = log[-1][2]
        part.count("expected_" + expected[0] + ("_lenient" if expected[0] == "accept" and expected[2] else ""))
        part.outcome((algo, repr(outcome)))
        if viol:
            part.violation(viol["key"], viol["what"], case_json(algo, cli, case))
        if i in (2, 4011) and algo in ("dsa", "mgm2", "maxsum"):
            part.sample({"algo": algo, "supplied": list(case) if cli else [[a, repr(b)] for a, b in case],
                         "reference": [expected[0], repr(expected[1])], "observed_last_route": repr(outcome)})
    return part


def run(ctx):
    ctx.level = "exploration"
    kmax, unk = plan(ctx.quick)
    w = world()
    ctx.rule = (
        f"for each of the {len(w) - len(SYNTHETIC)} modules of pydcop.algorithms (parameters as declared by the module; "
        "5 modules declare none) and the definitions used in the pydcop.algorithms docstrings: (A) every subset of <= "
        f"{kmax} declared parameters, each over its FULL value menu (int {len(INT_FULL)} values, float {len(FLOAT_FULL)}, "
        "str = all allowed values + 12-13 others: typed, numeric strings, int-for-float, out-of-values, wrong types, "
        "None, falsy, 2**31, 2**40, inf, unspecified ones such as bool/' 7 '), (B) when more parameters are supplied, every "
        "parameter absent or over its CORE menu (one value per class); each time without or with one entry the algorithm "
        f"does not declare ({'1 name' if ctx.quick else 'foo, a parameter of another algorithm, upper-cased name, name+space, empty name'}); "
        "every case in both supply orders; as typed values through check_param_value (per value), prepare_algo_params and "
        "AlgorithmDef.build_with_default_param, and (string menus, plus entries without ':') as 'name:value' strings "
        "through build_algo_def as well. Non-trivial = at least one user-supplied entry."
    )
    ctx.assumptions = [
        "Parameter declarations (module.algo_params as returned by load_algorithm_module) are inputs, read once per process and snapshotted; the check does not judge the declarations themselves.",
        "Values whose treatment the property leaves open (anything Python's int()/float() accepts that is neither of the declared type, an int for a float, nor a canonical decimal string) may be rejected or accepted; only the declared result type is demanded.",
        "Duplicate names among 'name:value' strings and numeric parameters with a `values` list are not in the alphabet (no shipped algorithm has one; the property does not define them).",
    ]
    ctx.pmap(shard, ctx.rotate(jobs(ctx.quick)))


def replay(case):
    algo = case["algo"]
    cli = "cli" in case
    c = tuple(case["cli"]) if cli else tuple((n, dec(v)) for n, v in case["entries"])
    print("algorithm:", algo, "declared:", world()[algo]["snap"])
    viol, outcome, log = evaluate(algo, cli, c)
    for route, ents, expected, obs in log:
        print(f"  {route}({ents!r}) -> {obs!r}   reference: {expected!r}")
    if viol:
        print(viol["key"], "::", viol["what"])
    return viol is not None
