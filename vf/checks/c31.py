"""C31 Agent definitions honour their cost model, also when mass-created.

Bounded-exhaustive enumeration (E2) of AgentDef constructor arguments and
create_agents index kinds against a 10-line reference model.
"""
import itertools

from vf.core.runner import Part

UNSET = "<unset>"
NAMES = ["a1", "a2", "a3"]
ROUTE_ITEMS = [("a1", 2), ("a2", 0), ("a3", 0.5)]
HOST_ITEMS = [("c1", 0), ("c2", 5)]
DEF_ROUTES = [UNSET, 1, 7, 0]
DEF_HOSTS = [UNSET, 0, 3]
EXTRAS = [{}, {"capacity": 10}, {"foo": "x"}, {"capacity": 10, "foo": "x"}]
Q_AGENTS = ["a1", "a2", "a3", "a4"]
Q_COMPS = ["c1", "c2", "c3"]


def subsets(items):
    for r in range(len(items) + 1):
        for c in itertools.combinations(items, r):
            yield dict(c)


def ref_route(name, routes, default_route, other):
    if other == name:
        return 0
    if routes is not None and other in routes:
        return routes[other]
    return 1 if default_route == UNSET else default_route


def ref_hosting(hosting, default_hosting, comp):
    if hosting is not None and comp in hosting:
        return hosting[comp]
    return 0 if default_hosting == UNSET else default_hosting


def kwargs_for(default_route, routes, default_hosting, hosting, extra):
    kw = dict(extra)
    if default_route != UNSET:
        kw["default_route"] = default_route
    if routes is not None:
        kw["routes"] = dict(routes)
    if default_hosting != UNSET:
        kw["default_hosting_cost"] = default_hosting
    if hosting is not None:
        kw["hosting_costs"] = dict(hosting)
    return kw


def observe(agent):
    obs = {"name": agent.name}
    for a in Q_AGENTS:
        obs["route:" + a] = agent.route(a)
    for c in Q_COMPS:
        obs["host:" + c] = agent.hosting_cost(c)
    obs["extra"] = dict(agent.extra_attr())
    for k in ("capacity", "foo"):
        try:
            obs["attr:" + k] = getattr(agent, k)
        except AttributeError:
            obs["attr:" + k] = "<AttributeError>"
    return obs


def expected(name, default_route, routes, default_hosting, hosting, extra):
    obs = {"name": name}
    for a in Q_AGENTS:
        obs["route:" + a] = ref_route(name, routes, default_route, a)
    for c in Q_COMPS:
        obs["host:" + c] = ref_hosting(hosting, default_hosting, c)
    obs["extra"] = dict(extra)
    for k in ("capacity", "foo"):
        obs["attr:" + k] = extra.get(k, "<AttributeError>")
    return obs


def diff(a, b):
    return sorted(k for k in set(a) | set(b) if a.get(k) != b.get(k) or type(a.get(k)) != type(b.get(k)))


def single_case(case, part):
    from pydcop.dcop.objects import AgentDef

    name, dr, routes, dh, hosting, extra = case
    kw = kwargs_for(dr, routes, dh, hosting, extra)
    agent = AgentDef(name, **kw)
    got = observe(agent)
    exp = expected(name, dr, routes, dh, hosting, extra)
    d = diff(got, exp)
    if d:
        feat = sorted({k.split(":")[0] for k in d})
        part.violation(
            "AgentDef|" + "+".join(feat),
            f"AgentDef({name!r}, **{kw}) differs from the cost model on {d}: got {[got[k] for k in d]} expected {[exp[k] for k in d]}",
            {"kind": "single", "case": [name, dr, routes, dh, hosting, extra]},
        )
    return got


INDEX_KINDS = [
    ("list_str", ["1", "2"]),
    ("list_int", [1, 2, 3]),
    ("range2", ("range", 2)),
    ("range11", ("range", 11)),
    ("range_5_12", ("range", 5, 12)),
    ("tuple", ("tuple", [["x", "y"], ["1", "2"]])),
    ("tuple1", ("tuple", [["q"]])),
]


def build_indexes(spec):
    if isinstance(spec, (tuple, list)) and spec and spec[0] == "range":
        return range(*spec[1:])
    if isinstance(spec, (tuple, list)) and spec and spec[0] == "tuple":
        return tuple(list(x) for x in spec[1])
    return list(spec)


def ref_names(prefix, spec, sep):
    """Names documented for create_agents (docstring: 'a2', 'a08', prefix + sep.join(combi))."""
    idx = build_indexes(spec)
    if isinstance(idx, tuple):
        return {tuple(c): prefix + sep.join(c) for c in itertools.product(*idx)}
    if isinstance(idx, range):
        w = len(str(idx.stop - 1))
        return {f"{prefix}{i:0{w}d}": f"{prefix}{i:0{w}d}" for i in idx}
    return {prefix + str(i): prefix + str(i) for i in idx}


def mass_case(case, part):
    from pydcop.dcop.objects import AgentDef, create_agents

    kind, spec, sep, dr, routes, dh, hosting, extra = case
    kw = dict(extra)
    if dr != UNSET:
        kw["default_route"] = dr
    if routes is not None:
        kw["routes"] = dict(routes)
    if dh != UNSET:
        kw["default_hosting_costs"] = dh
    if hosting is not None:
        kw["hosting_costs"] = dict(hosting)
    if sep is not None:
        kw["separator"] = sep
    agents = create_agents("a", build_indexes(spec), **kw)
    names = ref_names("a", spec, "_" if sep is None else sep)
    if set(agents) != set(names):
        part.violation(
            "create_agents|keys|" + kind,
            f"create_agents keys {sorted(map(str, agents))} != documented {sorted(map(str, names))}",
            {"kind": "mass", "case": list(case)},
        )
        return None
    out = {}
    for key, name in names.items():
        single = AgentDef(name, **kwargs_for(dr, routes, dh, hosting, extra))
        got, exp = observe(agents[key]), observe(single)
        out[str(key)] = got
        d = diff(got, exp)
        if d:
            feat = sorted({k.split(":")[0] for k in d})
            part.violation(
                "create_agents|" + "+".join(feat),
                f"create_agents('a', {spec}, **{kw})[{key!r}] differs from AgentDef({name!r}, same arguments) on {d}: "
                f"got {[got[k] for k in d]} expected {[exp[k] for k in d]}",
                {"kind": "mass", "case": list(case)},
            )
            break
    return out


def cases_single():
    for name in NAMES:
        for dr in DEF_ROUTES:
            for routes in [None] + list(subsets(ROUTE_ITEMS)):
                for dh in DEF_HOSTS:
                    for hosting in [None] + list(subsets(HOST_ITEMS)):
                        for extra in EXTRAS:
                            yield (name, dr, routes, dh, hosting, extra)


def cases_mass(quick):
    routes_menu = [None, {}, {"a1": 2}, {"a1": 2, "ax_1": 0}]
    host_menu = [None, {"c1": 0}, {"c1": 0, "c2": 5}]
    for kind, spec in INDEX_KINDS:
        for sep in [None, "-"] if kind.startswith("tuple") else [None]:
            for dr in DEF_ROUTES:
                for routes in routes_menu:
                    for dh in DEF_HOSTS:
                        for hosting in host_menu:
                            for extra in EXTRAS:
                                yield (kind, spec, sep, dr, routes, dh, hosting, extra)


def shard(args):
    idx, n, quick = args
    part = Part()
    for i, case in enumerate(cases_single()):
        if i % n != idx:
            continue
        got = single_case(case, part)
        part.count("evaluations")
        part.count("single_cases")
        name, dr, routes, dh, hosting, extra = case
        # non-trivial: at least one specific route or hosting entry and one default actually consulted
        if (routes or hosting):
            part.nontriv(("s", case))
        part.outcome(sorted(got.items(), key=lambda kv: kv[0]).__repr__())
        if i < 2:
            part.sample({"AgentDef": case, "observed": got})
    for i, case in enumerate(cases_mass(quick)):
        if i % n != idx:
            continue
        got = mass_case(case, part)
        part.count("evaluations")
        part.count("mass_cases")
        if case[3] != UNSET or case[5] != UNSET or case[4] or case[6]:
            part.nontriv(("m", case))
        part.outcome(repr(got))
        if i < 1:
            part.sample({"create_agents": case, "observed": got})
    return part


def run(ctx):
    ctx.level = "exploration"
    ctx.rule = (
        "all AgentDef argument combinations over names x default_route{unset,1,7,0} x route subsets of "
        "{a1:2,a2:0,a3:0.5} x default_hosting{unset,0,3} x hosting subsets of {c1:0,c2:5} x 4 extra-attribute sets, "
        "queried on 4 agents/3 computations/2 attributes against a reference cost model; all create_agents calls over "
        "7 index kinds x separators x the same menus compared with individually built AgentDef; non-trivial = a specific "
        "route/hosting table or non-default default is involved"
    )
    ctx.pmap(shard, [(i, 16, ctx.quick) for i in range(16)])


def replay(case):
    part = Part()
    if case["kind"] == "single":
        c = case["case"]
        print(single_case(tuple(c), part))
    else:
        c = case["case"]
        print(mass_case(tuple(c), part))
    for v in part.violations:
        print(v["what"])
    return bool(part.violations)
