"""C16 Computation graphs faithfully mirror the DCOP.

Bounded-exhaustive enumeration (E2) of small DCOPs -- every multiset of constraint scopes over n named
variables, isolated variables included -- built through the real DCOP / Variable / Constraint classes and
handed to the three real `build_computation_graph` functions (constraints hyper-graph, factor graph, ordered
graph).  What the graphs expose (graph.nodes, node.constraints, node.neighbors, node.links, get_next /
get_previous) is compared with a reference model that is three dict comprehensions over the problem
specification (names and scopes), never over pyDCOP objects.
"""
import collections
import itertools

from vf.core.runner import Part

# insertion order != lexical order from n=2 on; prefixes (v, v1, v10 / ab, ab0), lengths 1..3, "v10" < "v2"
POOL = ["x", "v2", "v10", "ab", "v1", "z_9", "v", "ab0"]
# constraint names: insertion order != lexical order, none collides with a variable name
CNAMES = ["k", "c10", "c2", "b3"]
STYLES = ["matrix", "expr", "func_clone"]
ENTRIES = ["dcop_vars_first", "dcop_cons_first", "lists"]
NSHARDS = 64

# (number of variables, max number of constraints, max scope size)
PLAN_QUICK = [(1, 3, 1), (2, 3, 2), (3, 3, 3), (4, 3, 3), (5, 2, 3), (8, 1, 8)]
PLAN_THOROUGH = [(1, 4, 1), (2, 4, 2), (3, 4, 3), (4, 4, 4), (5, 4, 3), (6, 3, 3), (7, 2, 7), (8, 2, 8)]


# ---------------------------------------------------------------------------------------------- enumeration
def scopes_of(n, max_arity):
    names = POOL[:n]
    out = []
    for r in range(1, min(n, max_arity) + 1):
        out.extend(itertools.combinations(names, r))
    return out


def specs(plan):
    """All problem specifications of the plan, simplest first: (names, ((cname, scope), ...))."""
    for n, kmax, max_arity in plan:
        names = tuple(POOL[:n])
        scopes = scopes_of(n, max_arity)
        for k in range(kmax + 1):
            for combo in itertools.combinations_with_replacement(scopes, k):
                yield names, tuple((CNAMES[i], sc) for i, sc in enumerate(combo))


def cases(plan):
    for names, cons in specs(plan):
        for style in STYLES:
            for entry in ENTRIES:
                yield names, cons, style, entry


# ------------------------------------------------------------------------------------------ reference model
def reference(names, cons):
    contains = {v: sorted(c for c, sc in cons if v in sc) for v in names}
    shares = {v: {u for _, sc in cons if v in sc for u in sc if u != v} for v in names}
    scope = {c: tuple(sorted(sc)) for c, sc in cons}
    return contains, shares, scope


def is_nontrivial(names, cons):
    """>= 1 constraint of arity >= 2 together with an isolated variable, a unary constraint or an overlap."""
    if not any(len(sc) >= 2 for _, sc in cons):
        return False
    used = [v for _, sc in cons for v in sc]
    isolated = len(set(used)) < len(names)
    unary = any(len(sc) == 1 for _, sc in cons)
    overlap = len(used) > len(set(used))
    return isolated or unary or overlap


# ------------------------------------------------------------------------------- building the real problem
_COST = {}


def _zero(**kwargs):
    return 0


def _zero1(a):
    return 0


def make_variable(name, dom):
    from pydcop.dcop.objects import BinaryVariable, Variable, VariableWithCostFunc
    from pydcop.utils.expressionfunction import ExpressionFunction

    if name == "v2":
        return Variable(name, [0, 1])  # anonymous domain
    if name == "v10":
        if "v10" not in _COST:
            _COST["v10"] = ExpressionFunction("v10 * 2")
        return VariableWithCostFunc(name, dom, _COST["v10"])
    if name == "ab":
        return BinaryVariable(name)
    if name == "v1":
        return Variable(name, dom, initial_value=1)
    if name == "ab0":
        return Variable(name, ["a", "b"])  # str values
    return Variable(name, dom)


def make_constraint(cname, scope, variables, style):
    from pydcop.dcop.relations import (
        NAryFunctionRelation,
        NAryMatrixRelation,
        UnaryFunctionRelation,
        constraint_from_str,
    )

    vs = [variables[v] for v in scope]
    if style == "matrix":
        c = NAryMatrixRelation(vs, name=cname)
    elif style == "expr":
        # dimensions come out in the (hash-seed dependent) order of ExpressionFunction.variable_names
        c = constraint_from_str(cname, " + ".join(scope), list(variables.values()))
    else:
        # equal-but-not-identical variable objects, scope reversed
        clones = [v.clone() for v in reversed(vs)]
        if len(clones) == 1:
            c = UnaryFunctionRelation(cname, clones[0], _zero1)
        else:
            c = NAryFunctionRelation(_zero, clones, name=cname, f_kwargs=True)
    if c.name != cname or sorted(v.name for v in c.dimensions) != sorted(scope):
        raise AssertionError(f"harness: constraint {cname} {scope} built as {c.name} {c.dimensions}")
    return c


def make_problem(names, cons, style, entry):
    """Returns (args, kwargs) for build_computation_graph."""
    from pydcop.dcop.dcop import DCOP
    from pydcop.dcop.objects import Domain

    dom = Domain("d", "level", [0, 1])
    variables = collections.OrderedDict((v, make_variable(v, dom)) for v in names)
    constraints = [make_constraint(c, sc, variables, style) for c, sc in cons]
    if entry == "lists":
        return (None,), {
            "variables": list(reversed(list(variables.values()))),
            "constraints": list(reversed(constraints)),
        }
    dcop = DCOP("p")
    if entry == "dcop_vars_first":
        for v in variables.values():
            dcop.add_variable(v)
        for c in constraints:
            dcop.add_constraint(c)
    else:
        for c in constraints:
            dcop.add_constraint(c)
        for v in reversed(list(variables.values())):
            if v.name not in dcop.variables:
                dcop.add_variable(v)
    if sorted(dcop.variables) != sorted(names) or sorted(dcop.constraints) != sorted(c for c, _ in cons):
        raise AssertionError(f"harness: DCOP holds {list(dcop.variables)} {list(dcop.constraints)}")
    return (dcop,), {}


# -------------------------------------------------------------------------------------------------- oracle
# Signatures: a derived observable (links, neighbors of a node whose constraints are already wrong; graph.links of a
# graph whose nodes are already wrong) is not reported a second time, so that one defect gives one or two keys.
def msdiff(got, exp):
    """(missing, extra) between two lists taken as multisets."""
    g, e = collections.Counter(got), collections.Counter(exp)
    return sorted((e - g).elements()), sorted((g - e).elements())


def arity_class(sizes):
    """Smallest arity involved, as unary / binary / n-ary."""
    sizes = list(sizes)
    if not sizes:
        return "arity=?"
    return {1: "arity=1", 2: "arity=2"}.get(min(sizes), "arity>2")


def check_nodes(tag, graph, exp_names, isolated, rep):
    got = [n.name for n in graph.nodes]
    missing, extra = msdiff(got, exp_names)
    if missing:
        kind = "isolated" if set(missing) <= isolated else "constrained"
        rep(f"{tag}|nodes|missing|{kind}", f"no node for {missing}: node names {sorted(got)}, expected {sorted(exp_names)}")
    if extra:
        kind = "duplicate" if set(extra) <= set(exp_names) else "unknown"
        rep(f"{tag}|nodes|extra|{kind}", f"unexpected node(s) {extra}: node names {sorted(got)}, expected {sorted(exp_names)}")
    by = {}
    for n in graph.nodes:
        by.setdefault(n.name, n)
    return by


def check_constraints(tag, node, v, contains, scope, rep):
    """node.constraints == the constraints containing v; returns True when something was reported."""
    bad = False
    var = getattr(node, "variable", None)
    if getattr(var, "name", None) != v:
        bad = True
        rep(f"{tag}|node-variable", f"node {v} carries variable {var!r}")
    got = [c.name for c in node.constraints]
    missing, extra = msdiff(got, contains[v])
    if missing:
        bad = True
        rep(
            f"{tag}|constraints|missing|{arity_class(len(scope[c]) for c in missing)}",
            f"node {v} lists constraints {sorted(got)}, expected {contains[v]} (missing {missing})",
        )
    if extra:
        bad = True
        kind = "duplicate" if set(extra) <= set(contains[v]) else "foreign"
        rep(
            f"{tag}|constraints|extra|{kind}",
            f"node {v} lists constraints {sorted(got)}, expected {contains[v]} (extra {extra})",
        )
    for c in node.constraints:
        if c.name in scope and tuple(sorted(d.name for d in c.dimensions)) != scope[c.name]:
            bad = True
            rep(f"{tag}|constraints|wrong-object", f"node {v}: constraint {c.name} has scope {c.dimensions}, expected {scope[c.name]}")
    return bad


def check_neighbors(tag, by, v, exp, rep, via=None):
    """set(node.neighbors) == exp, no repeat, not itself.  A missing neighbor u that does list v is reported as an
    asymmetry.  `via(u)` gives the arities of the constraints that make u a neighbor (narrows the signature)."""
    got = list(by[v].neighbors)
    bad = False
    if len(got) != len(set(got)):
        bad = True
        rep(f"{tag}|neighbors|duplicate", f"node {v} neighbors {sorted(got)} contain a repeated name")
    if v in got:
        bad = True
        rep(f"{tag}|neighbors|self", f"node {v} is its own neighbor: {sorted(got)}")
    missing = sorted(exp - set(got))
    extra = sorted(set(got) - exp - {v})
    if missing:
        bad = True
        one_sided = [u for u in missing if u in by and v in list(by[u].neighbors)]
        kind = "asymmetric" if one_sided else "missing"
        how = "" if via is None else "|via-" + arity_class(a for u in missing for a in via(u))
        rep(
            f"{tag}|neighbors|{kind}{how}",
            f"node {v} neighbors {sorted(got)}, expected {sorted(exp)} (missing {missing}"
            + (f"; yet {v} is a neighbor of {one_sided})" if one_sided else ")"),
        )
    if extra:
        bad = True
        rep(f"{tag}|neighbors|extra", f"node {v} neighbors {sorted(got)}, expected {sorted(exp)} (extra {extra})")
    return bad


def check_hypergraph(graph, names, cons, rep):
    contains, shares, scope = reference(names, cons)
    isolated = {v for v in names if not contains[v]}
    by = check_nodes("hypergraph", graph, list(names), isolated, rep)
    clean = sorted(by) == sorted(names)
    for v in names:
        if v not in by:
            continue
        bad = check_constraints("hypergraph", by[v], v, contains, scope, rep)
        if not bad:
            # hyper-edges held by the node: one per constraint, joining exactly its scope
            # (the hyper-edge *names* are not compared: the property speaks about constraints and neighbourhood only)
            got = sorted((None, tuple(sorted(l.nodes))) for l in by[v].links)
            exp = sorted((None, scope[c]) for c in contains[v])
            if got != exp:
                bad = True
                missing, extra = msdiff(got, exp)
                rep(f"hypergraph|links|{arity_class(len(n) for _, n in missing + extra)}", f"node {v} has hyper-edges {got}, expected {exp}")
        if not bad:
            bad = check_neighbors(
                "hypergraph", by, v, shares[v], rep, via=lambda u, v=v: {len(sc) for _, sc in cons if u in sc and v in sc}
            )
        clean = clean and not bad
    if clean:
        got = sorted((None, tuple(sorted(l.nodes))) for l in graph.links)
        exp = sorted((None, sc) for sc in scope.values())
        if got != exp:
            rep("hypergraph|graph-links", f"graph.links is {got}, expected one hyper-edge per constraint {exp}")
    return tuple((v, tuple(sorted(by[v].neighbors)), tuple(sorted(c.name for c in by[v].constraints))) for v in sorted(by))


def check_factorgraph(graph, names, cons, rep):
    from pydcop.computations_graph import factor_graph as fg

    contains, _, scope = reference(names, cons)
    isolated = {v for v in names if not contains[v]}
    by = check_nodes("factorgraph", graph, list(names) + [c for c, _ in cons], isolated, rep)
    clean = sorted(by) == sorted(list(names) + list(scope))
    vset, fset = set(names), set(scope)
    for v in names:
        if v not in by:
            continue
        node = by[v]
        if not isinstance(node, fg.VariableComputationNode) or getattr(node.variable, "name", None) != v:
            clean = False
            rep("factorgraph|variable-node-kind", f"node {v} is {node!r}, expected the variable node of {v}")
            continue
        got = list(node.constraints_names)
        bad = sorted(got) != contains[v]
        if bad:
            missing, extra = msdiff(got, contains[v])
            rep(
                f"factorgraph|var|constraints_names|{arity_class(len(scope[c]) for c in missing + extra if c in scope)}",
                f"variable node {v} lists factors {sorted(got)}, expected {contains[v]}",
            )
        if not bad:
            got = sorted((l.factor_node, l.variable_node) for l in node.links)
            exp = sorted((c, v) for c in contains[v])
            if got != exp:
                bad = True
                rep("factorgraph|var|links", f"variable node {v} has links (factor, variable) {got}, expected {exp}")
        if not bad:
            bad = check_neighbors("factorgraph|var", by, v, set(contains[v]), rep, via=lambda c: {len(scope[c])})
        clean = clean and not bad
    for c in scope:
        if c not in by:
            continue
        node = by[c]
        if not isinstance(node, fg.FactorComputationNode) or getattr(node.factor, "name", None) != c:
            clean = False
            rep("factorgraph|factor-node-kind", f"node {c} is {node!r}, expected the factor node of {c}")
            continue
        a = arity_class([len(scope[c])])
        bad = tuple(sorted(x.name for x in node.variables)) != scope[c]
        if bad:
            rep(f"factorgraph|factor|variables|{a}", f"factor node {c} has variables {node.variables}, expected {scope[c]}")
        if [x.name for x in node.constraints] != [c]:
            bad = True
            rep("factorgraph|factor|constraints", f"factor node {c} lists constraints {node.constraints}, expected [{c}]")
        if not bad:
            got = sorted((l.factor_node, l.variable_node) for l in node.links)
            exp = sorted((c, x) for x in scope[c])
            if got != exp:
                bad = True
                rep(f"factorgraph|factor|links|{a}", f"factor node {c} has links (factor, variable) {got}, expected {exp}")
        if not bad:
            bad = check_neighbors("factorgraph|factor", by, c, set(scope[c]), rep, via=lambda x, n=len(scope[c]): {n})
        clean = clean and not bad
    # bipartite: every edge joins one variable node and one factor node, and the edge set is exactly "x in scope(f)"
    edges = []
    for l in graph.links:
        ends = set(l.nodes)
        if len(ends) != 2 or len(vset & ends) != 1 or len(fset & ends) != 1:
            clean = False
            rep("factorgraph|not-bipartite", f"link {l!r} does not join one variable node and one factor node")
        else:
            edges.append((l.factor_node, l.variable_node))
    exp = sorted((c, x) for c in scope for x in scope[c])
    if clean and sorted(edges) != exp:
        rep("factorgraph|graph-links", f"graph.links is {sorted(edges)}, expected {exp}")
    return tuple(sorted(edges))


def check_ordered(graph, names, cons, rep):
    contains, _, scope = reference(names, cons)
    isolated = {v for v in names if not contains[v]}
    by = check_nodes("ordered", graph, list(names), isolated, rep)
    # (node.constraints of the ordered graph is not compared: the property only states the lexical chain)
    if set(by) != set(names):
        return ()
    order = sorted(names)  # lexical order of the names
    exp_next = {v: (order[i + 1] if i + 1 < len(order) else None) for i, v in enumerate(order)}
    exp_prev = {v: (order[i - 1] if i > 0 else None) for i, v in enumerate(order)}
    got_next = {v: by[v].get_next() for v in names}
    got_prev = {v: by[v].get_previous() for v in names}
    for v in names:
        for kind, exp in (("next", exp_next[v]), ("previous", exp_prev[v])):
            ls = [l for l in by[v].links if l.type == kind]
            if len(ls) > 1:
                rep(f"ordered|links|several-{kind}", f"node {v} has {len(ls)} '{kind}' links: {ls}")
            for l in ls:
                if l.source != v or set(l.nodes) != {l.source, l.target}:
                    rep(f"ordered|links|{kind}-source", f"node {v} holds '{kind}' link source={l.source} target={l.target} nodes={sorted(l.nodes)}")
    if got_next != exp_next or got_prev != exp_prev:
        consistent = all(n is None or got_prev.get(n) == v for v, n in got_next.items()) and all(
            p is None or got_next.get(p) == v for v, p in got_prev.items()
        )
        heads = [v for v in names if got_prev[v] is None]
        walk = []
        if len(heads) == 1:
            cur = heads[0]
            while cur is not None and cur in got_next and cur not in walk:
                walk.append(cur)
                cur = got_next[cur]
        if not consistent:
            key = "ordered|chain|next-previous-inconsistent"
        elif sorted(walk) != order:
            key = "ordered|chain|not-one-chain-over-all-variables"
        else:
            key = "ordered|chain|not-lexical-order"
        rep(key, f"next={got_next} previous={got_prev}; expected the chain {order}")
    return tuple(got_next.get(v) for v in order)


GRAPHS = [
    ("hypergraph", "pydcop.computations_graph.constraints_hypergraph", check_hypergraph),
    ("factorgraph", "pydcop.computations_graph.factor_graph", check_factorgraph),
    ("ordered", "pydcop.computations_graph.ordered_graph", check_ordered),
]


def evaluate(case, part, verbose=False):
    """Builds the three graphs of one case on the real code and compares them with the reference model."""
    import importlib

    names, cons, style, entry = case
    names = tuple(names)
    cons = tuple((c, tuple(sc)) for c, sc in cons)
    jcase = {"names": list(names), "cons": [[c, list(sc)] for c, sc in cons], "style": style, "entry": entry}
    head = f"DCOP variables {list(names)} constraints {[(c, list(sc)) for c, sc in cons]} ({style}, {entry})"
    observed = []
    # one problem, three graphs: building a graph does not modify the DCOP, its variables or its constraints
    args, kwargs = make_problem(names, cons, style, entry)
    for tag, modname, checker in GRAPHS:
        mod = importlib.import_module(modname)

        def rep(key, what, _tag=tag):
            part.violation("C16|" + key, f"{head}: {_tag}: {what}", jcase)

        try:
            graph = mod.build_computation_graph(*args, **kwargs)
        except Exception as e:  # prevents the stated result
            rep(f"{tag}|build-raised|{type(e).__name__}", f"build_computation_graph raised {type(e).__name__}: {e}")
            observed.append((tag, "raised"))
            continue
        try:
            obs = checker(graph, names, cons, rep)
        except Exception as e:
            rep(f"{tag}|observe-raised|{type(e).__name__}", f"reading the graph raised {type(e).__name__}: {e}")
            obs = "raised"
        observed.append((tag, obs))
        if verbose:
            print(f"  {tag}:")
            for n in graph.nodes:
                cs = sorted(c.name for c in getattr(n, "constraints", []))
                ls = sorted((l.type, sorted(l.nodes)) for l in n.links)
                print(f"    node {n.name}: constraints={cs} neighbors={sorted(n.neighbors)} links={ls}")
    return observed


# ------------------------------------------------------------------------------------------------ histories
# ONE DCOP object changed through its public API; the three graphs are re-built and judged after every step.
H_NAMES = POOL[:3]
H_EXTRA = POOL[3]
H_CN = CNAMES[:3]
H_INIT = [(H_CN[0], (H_NAMES[0], H_NAMES[1])), (H_CN[1], (H_NAMES[1], H_NAMES[2]))]


def hist_ops():
    scopes = [sc for r in (1, 2, 3) for sc in itertools.combinations(H_NAMES, r)]
    return [("set", c, sc) for c in H_CN for sc in scopes] + [("del", c) for c in H_CN] + [("addvar", H_EXTRA)]


def hist_eval(dcop, names, model, hist, part):
    import importlib

    cons = tuple((c, tuple(sc)) for c, sc in model.items())
    jcase = {"history": [list(o) for o in hist]}
    step = "after-" + hist[-1][0] if hist else "initial"
    ok = True
    for tag, modname, checker in GRAPHS:
        mod = importlib.import_module(modname)

        def rep(key, what, _tag=tag):
            nonlocal ok
            ok = False
            part.violation(f"C16|history|{key}|{step}", f"one DCOP object, history {hist} (graphs re-built after every step), now variables {list(names)} constraints {list(cons)}: {_tag}: {what}", jcase)

        try:
            graph = mod.build_computation_graph(dcop)
            checker(graph, tuple(names), cons, rep)
        except Exception as e:  # noqa
            rep(f"{tag}|raised|{type(e).__name__}", f"raised {type(e).__name__}: {e}")
        part.count("history_graphs_built")
    part.count("evaluations")
    return ok


def hist_run(hist, part):
    from pydcop.dcop.dcop import DCOP
    from pydcop.dcop.objects import Domain

    dom = Domain("d", "level", [0, 1])
    variables = collections.OrderedDict((v, make_variable(v, dom)) for v in H_NAMES)
    dcop = DCOP("p")
    for v in variables.values():
        dcop.add_variable(v)
    names = list(H_NAMES)
    model = collections.OrderedDict()
    for c, sc in H_INIT:
        dcop.add_constraint(make_constraint(c, sc, variables, "matrix"))
        model[c] = sc
    ok = hist_eval(dcop, names, model, [], part)
    for i, op in enumerate(hist):
        if op[0] == "set":
            dcop.add_constraint(make_constraint(op[1], tuple(op[2]), variables, "matrix"))
            model[op[1]] = tuple(op[2])
        elif op[0] == "del":
            del dcop.constraints[op[1]]
            del model[op[1]]
        else:
            variables[op[1]] = make_variable(op[1], dom)
            dcop.add_variable(variables[op[1]])
            names.append(op[1])
        ok = hist_eval(dcop, names, model, hist[:i + 1], part) and ok
    return ok, dict(model), names


def shard_history(idx, n, depth):
    part = Part()
    ops = hist_ops()
    count = [0]

    def rec(hist, model, names):
        if len(hist) == depth:
            return
        for op in ops:
            if (op[0] == "del" and op[1] not in model) or (op[0] == "set" and model.get(op[1]) == tuple(op[2])) or (op[0] == "addvar" and op[1] in names):
                continue
            h2 = hist + [op]
            if len(h2) == 1:
                count[0] += 1
                if count[0] % n != idx:
                    continue
            ok, m2, n2 = hist_run(h2, part)
            part.count("cases_histories")
            part.nontriv(("history", repr(h2)))
            part.outcome(("history", tuple(sorted(m2.items())), tuple(n2), ok))
            if ok:
                rec(h2, m2, n2)

    rec([], dict(H_INIT), list(H_NAMES))
    return part


def shard(args):
    idx, n, plan = args
    if plan in ("history2", "history3"):
        return shard_history(idx, n, int(plan[-1]))
    part = Part()
    for i, case in enumerate(cases(plan)):
        if i % n != idx:
            continue
        names, cons, style, entry = case
        observed = evaluate(case, part)
        part.count("evaluations")
        part.count("graphs_built", len(GRAPHS))
        part.count(f"cases_n{len(names)}")
        part.maxi("variables", len(names))
        part.maxi("constraints", len(cons))
        part.maxi("arity", max([len(sc) for _, sc in cons] or [0]))
        if is_nontrivial(names, cons):
            part.nontriv(case)
        part.outcome(observed)
        if i in (40, 3000, 7000):
            part.sample({"case": {"names": names, "cons": cons, "style": style, "entry": entry}, "observed": observed})
    return part


def run(ctx):
    plan = PLAN_QUICK if ctx.quick else PLAN_THOROUGH
    ctx.level = "exploration"
    ctx.rule = (
        f"for every (n variables, max constraints, max scope size) in {plan}: the first n names of {POOL} (insertion order "
        "differs from lexical order), every multiset of at most max-constraints scopes among all non-empty variable subsets "
        "up to the scope size (so unary, binary, n-ary, repeated scopes and isolated variables), each built 3 ways "
        f"{STYLES} (matrix relation / expression relation with set-ordered dimensions / function relations over cloned "
        f"variables in reversed order) and handed over 3 ways {ENTRIES}; for each case the real constraints hyper-graph, "
        "factor graph and ordered graph are built and nodes, node.constraints, node.neighbors, node.links, graph.links and "
        "next/previous are compared with a reference computed from names and scopes only. Histories: ONE DCOP object (3 variables, 2 constraints) "
        "is changed through its public API - a constraint replaced under the same name by any scope, added or deleted, a variable added - and "
        "the three graphs are re-built and judged after every step: every sequence of <= 2 (thorough 3) changes. Non-trivial = at least one "
        "constraint of arity >= 2 together with an isolated variable, a unary constraint or two overlapping scopes."
    )
    ctx.assumptions = [
        "DCOP, Variable and the relation classes build what they are asked to (checked per case: names and scope of every constraint, content of dcop.variables / dcop.constraints).",
        "No external variables, no zero-ary constraints, variable and constraint names distinct, re-iterable containers for the variables=/constraints= form.",
        "Lexical order = Python order of the (lower-case ASCII) names.",
    ]
    hplan = "history2" if ctx.quick else "history3"
    ctx.pmap(shard, ctx.rotate([(i, NSHARDS, plan) for i in range(NSHARDS)] + [(i, 16, hplan) for i in range(16)]))


def replay(case):
    if "history" in case:
        part = Part()
        hist = [tuple(tuple(x) if isinstance(x, list) else x for x in o) for o in case["history"]]
        ok, model, names = hist_run(hist, part)
        print("final:", names, model, "ok" if ok else "MISMATCH")
        for v in part.violations[:10]:
            print(" ", v["key"], "::", v["what"][:500])
        return bool(part.violations)
    part = Part()
    c = (tuple(case["names"]), tuple((n, tuple(sc)) for n, sc in case["cons"]), case["style"], case["entry"])
    print("case:", c)
    contains, shares, _ = reference(c[0], c[1])
    print("reference: constraints per variable", contains)
    print("reference: shares-a-constraint", {v: sorted(s) for v, s in shares.items()})
    print("reference: lexical chain", sorted(c[0]))
    evaluate(c, part, verbose=True)
    for k in sorted({v["key"] for v in part.violations}):
        print("violated:", k)
    for v in part.violations[:10]:
        print(" ", v["what"])
    return bool(part.violations)
