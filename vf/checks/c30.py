"""C30 Problem and scenario generators produce well-formed instances.

Bounded-exhaustive enumeration (E2) of the arguments of the three anchored generators
(pydcop/commands/generators/graphcoloring.py, ising.py, scenario.py).  The generators' randomness is owned by
the check:

* `nx` inside graphcoloring is rebound to a facade whose `gnp_random_graph` answers with EVERY labelled graph on
  the requested number of nodes (<= 4), and whose `barabasi_albert_graph` answers with every graph of the
  Barabasi-Albert support; the retry loop of the connectivity filter is driven by scripted answer sequences;
* `random` inside graphcoloring / ising is rebound to a scripted facade (answer vectors over a menu; all vectors
  when the number of draws is small, a covering family of patterns otherwise; all permutations for `shuffle`);
* `random` inside scenario is rebound to vf.core.choice.RandomFacade and every answer of `random.sample`
  (every ordered k-subset) is enumerated depth-first through the choice Controller.

The oracle is the property text; the reference model (graphs, bijection, tables, hosting counts, removal
bookkeeping) is written here with lists, sets and Counters.
"""
import argparse
import collections
import contextlib
import io
import itertools
import math
import os
import tempfile

from vf.core import choice
from vf.core.runner import Part

NSHARDS = 48


class Unscripted(Exception):
    """The code under test used a source of randomness the check does not own (harness limitation, exit 2)."""


class GeneratorLoops(Exception):
    """The generator kept asking for random graphs although an acceptable one had been answered."""


# --------------------------------------------------------------------------------------------------------------
# small reference helpers
# --------------------------------------------------------------------------------------------------------------

def close(a, b):
    try:
        if a == b:
            return True
        return abs(a - b) <= 1e-9 * max(1, abs(a), abs(b))
    except TypeError:
        return False


def pairs(n):
    return [(i, j) for i in range(n) for j in range(i + 1, n)]


def edges_of_mask(n, mask):
    ps = pairs(n)
    if ps:
        mask %= 1 << len(ps)
    return [p for b, p in enumerate(ps) if (mask >> b) & 1]


def is_connected(n, edges):
    if n == 0:
        return False
    adj = {i: set() for i in range(n)}
    for a, b in edges:
        adj[a].add(b)
        adj[b].add(a)
    seen, todo = {0}, [0]
    while todo:
        x = todo.pop()
        for y in adj[x]:
            if y not in seen:
                seen.add(y)
                todo.append(y)
    return len(seen) == n


def ba_support(n, m):
    """Every graph networkx.barabasi_albert_graph(n, m) can return: a star on m+1 nodes, then each new node k is
    attached to m distinct earlier nodes (all earlier nodes have a positive degree, hence a positive weight)."""
    graphs = [[(0, i) for i in range(1, m + 1)]]
    for k in range(m + 1, n):
        graphs = [g + [(t, k) for t in sub] for g in graphs for sub in itertools.combinations(range(k), m)]
    return graphs


def grid_edges(side):
    e = []
    for r in range(side):
        for c in range(side):
            if r + 1 < side:
                e.append((r * side + c, (r + 1) * side + c))
            if c + 1 < side:
                e.append((r * side + c, r * side + c + 1))
    return e


def unit(spec, i):
    """i-th answer in [0,1) of a scripted draw specification {menu, vec, fill}."""
    vec, fill, menu = spec["vec"], spec["fill"], spec["menu"]
    k = vec[i] if i < len(vec) else fill[(i - len(vec)) % len(fill)]
    return menu[k]


INT10 = [(k + 0.5) / 10 for k in range(10)]  # randint(0, 9) -> k
UNITS = [0.0, 0.5, 0.999999, 0.50001, 0.49999]  # uniform(-r, r) -> -r, 0, ~+r, tiny positive, tiny negative


class Rnd:
    """Stands in for the `random` module inside a generator module: scripted answers, everything logged."""

    def __init__(self, spec, perm=0):
        self.spec, self.perm = spec, perm
        self.n = 0
        self.ints, self.floats = [], []

    def _unit(self):
        u = unit(self.spec, self.n)
        self.n += 1
        return u

    def randint(self, a, b):
        v = min(b, a + int(self._unit() * (b - a + 1)))
        self.ints.append(v)
        return v

    def uniform(self, a, b):
        v = a + (b - a) * self._unit()
        self.floats.append(v)
        return v

    def random(self):
        v = self._unit()
        self.floats.append(v)
        return v

    def shuffle(self, lst):
        perms = list(itertools.permutations(list(lst)))
        lst[:] = list(perms[self.perm % len(perms)])

    def seed(self, *a, **k):
        pass

    def __getattr__(self, name):
        raise Unscripted("random." + name + " is not owned by the C30 check")


class NxFacade:
    """Stands in for `nx` inside graphcoloring: the random graph functions answer from a script (a list of
    indexes into the complete list of possible answers); everything else is the real networkx."""

    MAX_CALLS = 12

    def __init__(self, script):
        import networkx

        self._nx = networkx
        self.script = list(script)
        self.calls = []

    def __getattr__(self, name):
        return getattr(self._nx, name)

    def _next(self):
        if len(self.calls) > self.MAX_CALLS:
            raise GeneratorLoops(f"{len(self.calls)} random graphs requested")
        i = min(len(self.calls) - 1, len(self.script) - 1)
        return self.script[i]

    def _graph(self, n, edges):
        g = self._nx.Graph()
        g.add_nodes_from(range(n))
        g.add_edges_from(edges)
        return g

    def gnp_random_graph(self, n, p, *a, **k):
        self.calls.append(("gnp", n, p))
        return self._graph(n, edges_of_mask(n, self._next()))

    def barabasi_albert_graph(self, n, m, *a, **k):
        self.calls.append(("ba", n, m))
        sup = ba_support(n, m)
        return self._graph(n, sup[self._next() % len(sup)])


@contextlib.contextmanager
def patched(module, **attrs):
    old = {k: getattr(module, k) for k in attrs}
    for k, v in attrs.items():
        setattr(module, k, v)
    try:
        yield
    finally:
        for k, v in old.items():
            setattr(module, k, v)


def capturing(real, store):
    def wrapper(obj, *a, **k):
        store.append(obj)
        return real(obj, *a, **k)

    return wrapper


def all_runs(fn):
    """Depth-first enumeration of every answer vector of the choice points met by fn()."""
    stack = [()]
    while stack:
        prefix = stack.pop()
        ctl = choice.set_controller(choice.Controller(prefix))
        result = fn()
        yield list(ctl.taken), result
        for j in range(len(ctl.taken) - 1, len(prefix) - 1, -1):
            for a in range(ctl.arity[j] - 1, 0, -1):
                stack.append(tuple(ctl.taken[:j]) + (a,))
    choice.set_controller(choice.Controller())


# --------------------------------------------------------------------------------------------------------------
# graph colouring
# --------------------------------------------------------------------------------------------------------------

def gc_expected_edges(case):
    n, kind = case["n"], case["graph"]
    if kind == "grid":
        return grid_edges(math.isqrt(n))
    if kind == "scalefree":
        sup = ba_support(n, case["m"])
        return sup[case["graphs"][0] % len(sup)]
    answers = [edges_of_mask(n, m) for m in case["graphs"]]
    if case["allow"]:
        return answers[0]
    for e in answers:
        if is_connected(n, e):
            return e
    raise AssertionError("script without a connected answer")


def gc_call(case, tmpdir):
    """Runs graphcoloring.generate(args) on the case; returns (dcop or None, exception or None, rnd, nxf)."""
    import pydcop.commands.generators.graphcoloring as gc

    rnd = Rnd(case["draws"], case.get("perm", 0))
    nxf = NxFacade(case["graphs"])
    seen = []
    out = os.path.join(tmpdir, "gc.yaml") if case["to_file"] else None
    args = argparse.Namespace(
        variables_count=case["n"], colors_count=case["colors"], graph=case["graph"], allow_subgraph=case["allow"],
        soft=case["soft"], intentional=case["intentional"], noagents=case["noagents"], p_edge=case.get("p"),
        m_edge=case.get("m"), output=out,
    )
    err = None
    with patched(gc, random=rnd, nx=nxf, dcop_yaml=capturing(gc.dcop_yaml, seen)):
        try:
            with contextlib.redirect_stdout(io.StringIO()):
                gc.generate(args)
        except Unscripted:
            raise
        except Exception as e:  # noqa: the property's stated result is prevented
            err = e
    return (seen[-1] if seen else None), err, rnd, nxf


def gc_text(case):
    d = {k: v for k, v in case.items() if k not in ("fam", "draws")}
    d["draws"] = {"vec": case["draws"]["vec"], "fill": case["draws"]["fill"]}
    return "graphcoloring.generate(" + ", ".join(f"{k}={v}" for k, v in d.items()) + ")"


def gc_case(case, part, tmpdir, verbose=False):
    fam = "graphcoloring|" + case["graph"]
    form = "soft" if case["soft"] else ("hard-intentional" if case["intentional"] else "hard-extensive")
    dcop, err, rnd, nxf = gc_call(case, tmpdir)
    if err is not None or dcop is None:
        what = "loops" if isinstance(err, GeneratorLoops) else "raised|" + type(err).__name__
        part.violation(f"{fam}|{what}", f"{gc_text(case)} -> {err!r}, no DCOP produced", case)
        return ("raised", type(err).__name__)
    n, ncol = case["n"], case["colors"]
    names = sorted(dcop.variables)
    rank = {v: i for i, v in enumerate(names)}
    # requested variables and colours
    if len(names) != n:
        part.violation(f"{fam}|variables-count", f"{gc_text(case)}: {len(names)} variables {names}, requested {n}", case)
    doms = {tuple(dcop.variables[v].domain.values) for v in names}
    if any(len(d) != ncol or len(set(d)) != ncol for d in doms) or len(doms) > 1:
        part.violation(f"{fam}|colours", f"{gc_text(case)}: colour domains {sorted(doms)}, requested {ncol} colours", case)
    # constraints <-> edges
    exp_edges = sorted(gc_expected_edges(case))
    scopes, tables, bad_scope = [], [], []
    for cname in sorted(dcop.constraints):
        c = dcop.constraints[cname]
        sc = [v.name for v in c.dimensions]
        if len(sc) != 2 or sc[0] == sc[1] or any(s not in rank for s in sc):
            bad_scope.append((cname, sc))
            continue
        a, b = sorted(sc, key=rank.get)
        va, vb = dcop.variables[a].domain.values, dcop.variables[b].domain.values
        table = tuple(tuple(c.get_value_for_assignment({a: x, b: y}) for y in vb) for x in va)
        scopes.append((rank[a], rank[b]))
        tables.append((cname, a, b, va, vb, table))
    got_edges = sorted(scopes)
    structure_ok = not bad_scope and len(names) == n
    if bad_scope:
        part.violation(f"{fam}|constraint-not-an-edge", f"{gc_text(case)}: constraints with scopes {bad_scope}", case)
    elif len(set(got_edges)) != len(got_edges):
        dup = sorted(e for e, k in collections.Counter(got_edges).items() if k > 1)
        part.violation(f"{fam}|edge-with-several-constraints", f"{gc_text(case)}: several constraints on {dup}", case)
        structure_ok = False
    elif len(names) == n and got_edges != exp_edges:
        import networkx

        g1, g2 = networkx.Graph(), networkx.Graph()
        g1.add_nodes_from(range(n))
        g2.add_nodes_from(range(n))
        g1.add_edges_from(got_edges)
        g2.add_edges_from(exp_edges)
        if networkx.is_isomorphic(g1, g2):
            part.count("gc_relabelled_graphs")
        else:
            d = "fewer" if len(got_edges) < len(exp_edges) else "more" if len(got_edges) > len(exp_edges) else "other"
            part.violation(
                f"{fam}|constraints-vs-edges|{d}",
                f"{gc_text(case)}: constraint scopes {got_edges} but the graph has edges {exp_edges} (not even up to renaming)",
                case,
            )
            structure_ok = False
    # hard / soft as requested, on all assignments
    if case["soft"]:
        cells = sorted(x for t in tables for row in t[5] for x in row)
        draws = sorted(rnd.ints)
        if len(cells) != len(draws) or any(not close(a, b) for a, b in zip(cells, draws)):
            part.violation(
                f"{fam}|soft-costs-are-not-the-draws",
                f"{gc_text(case)}: costs over all joint assignments {cells} but the random costs drawn were {draws}",
                case,
            )
    else:
        penalties = set()
        for cname, a, b, va, vb, table in tables:
            for i, x in enumerate(va):
                for j, y in enumerate(vb):
                    v = table[i][j]
                    if x == y:
                        penalties.add(v)
                    elif not close(v, 0):
                        part.violation(
                            f"{fam}|{form}|cost-on-different-colours",
                            f"{gc_text(case)}: {cname}({a}={x},{b}={y}) = {v}, expected 0",
                            case,
                        )
        if any(not (p > 0) for p in penalties) or len(penalties) > 1:
            part.violation(
                f"{fam}|{form}|same-colour-penalty",
                f"{gc_text(case)}: costs of equal colours {sorted(penalties)}: expected one positive penalty",
                case,
            )
    part.maxi("gc_variables", len(names))
    part.maxi("gc_constraints", len(tables))
    if verbose:
        print("variables:", names, "domains:", sorted(doms))
        print("constraint scopes:", got_edges, "expected edges:", exp_edges)
        print("tables:", [(t[0], t[5]) for t in tables], "randint answers:", rnd.ints)
        print("random graph calls:", nxf.calls)
    return (len(names), sorted(doms), got_edges, structure_ok, sorted(t[5] for t in tables))


def draw_specs_int(ndraws, quick, plain):
    """Answer vectors for the randint(0, 9) draws of a soft problem with `ndraws` cells."""
    specs = [
        {"menu": INT10, "vec": [], "fill": [0]},
        {"menu": INT10, "vec": [], "fill": [9]},
        {"menu": INT10, "vec": [], "fill": list(range(10))},
        {"menu": INT10, "vec": [], "fill": [7, 3, 3, 0, 9]},
    ]
    if not plain or ndraws == 0:
        return specs
    if ndraws <= 2:
        menu = list(range(10))
    elif ndraws <= 4:
        menu = [0, 5, 9]
    elif ndraws <= 8:
        menu = [0, 9]
    else:
        return specs
    return specs + [{"menu": INT10, "vec": list(v), "fill": [0]} for v in itertools.product(menu, repeat=ndraws)]


NODRAW = {"menu": INT10, "vec": [], "fill": [0]}


def gc_cases(quick):
    """Simplest first."""
    def forms(nedges, colors, slim=False, plain=False):
        yield False, False, NODRAW
        if slim:
            yield True, False, {"menu": INT10, "vec": [], "fill": list(range(10))}
            return
        yield False, True, NODRAW
        for spec in draw_specs_int(nedges * colors * colors, quick, plain):
            yield True, False, spec

    def base(graph, n, colors, allow, graphs, nedges, slim=False, **extra):
        for noagents in ([False] if slim else [False, True]):
            for to_file in ([False] if slim else [False, True]):
                for soft, intentional, spec in forms(nedges, colors, slim, plain=not noagents and not to_file):
                    d = dict(fam="gc", graph=graph, n=n, colors=colors, allow=allow, graphs=graphs, soft=soft,
                             intentional=intentional, noagents=noagents, to_file=to_file, draws=spec)
                    d.update(extra)
                    yield d

    colours = [1, 2, 3]
    # random graphs: every labelled graph on n <= 4 nodes is the answer of gnp_random_graph
    for n in [1, 2, 3, 4]:
        allg = list(range(1 << len(pairs(n))))
        conn = [m for m in allg if is_connected(n, edges_of_mask(n, m))]
        disc = [m for m in allg if m not in conn]
        for colors in colours:
            for m in allg:
                yield from base("random", n, colors, True, [m], len(edges_of_mask(n, m)), p=0.5)
            for m in conn:
                yield from base("random", n, colors, False, [m], len(edges_of_mask(n, m)), p=0.5)
        # retries of the connectivity filter: every disconnected answer followed by connected ones
        second = conn if (n <= 3 or not quick) else [conn[0], conn[-1]]
        for d in disc:
            for m in second:
                yield from base("random", n, 2, False, [d, m], len(edges_of_mask(n, m)), slim=True, p=0.5)
        if n <= 3:
            for d1 in disc:
                for d2 in disc:
                    for m in conn:
                        yield from base("random", n, 2, False, [d1, d2, m], len(edges_of_mask(n, m)), slim=True, p=0.5)
        # a disconnected answer is kept as it is with --allow_subgraph (never re-drawn); p_edge = 1.0 representative
        for d in disc[:3]:
            yield from base("random", n, 2, True, [d, conn[0]], len(edges_of_mask(n, d)), slim=True, p=1.0)
    # the largest palette on a small graph
    yield from base("random", 2, 8, False, [1], 1, p=0.5)
    yield from base("grid", 4, 8, False, [0], 4)
    # all 10^4 answer vectors of the four randint(0, 9) draws of the smallest 2-colour soft problem
    if not quick:
        for v in itertools.product(range(10), repeat=4):
            yield dict(fam="gc", graph="random", n=2, colors=2, allow=False, graphs=[1], soft=True, intentional=False,
                       noagents=False, to_file=False, draws={"menu": INT10, "vec": list(v), "fill": [0]}, p=0.5)
    # grids
    for n in ([1, 4, 9] if quick else [1, 4, 9, 16]):
        for colors in colours:
            for allow in [False, True]:
                yield from base("grid", n, colors, allow, [0], len(grid_edges(math.isqrt(n))))
    # scale free: every graph of the Barabasi-Albert support, every answer of random.shuffle
    for n in [2, 3, 4]:
        for m in range(1, n):
            sup = ba_support(n, m)
            for colors in ([2] if quick else [2, 3]):
                for allow in [False, True]:
                    for gi in range(len(sup)):
                        for perm in range(math.factorial(n)):
                            yield from base("scalefree", n, colors, allow, [gi], len(sup[gi]), slim=(perm > 0 or allow),
                                            m=m, perm=perm)


# --------------------------------------------------------------------------------------------------------------
# Ising
# --------------------------------------------------------------------------------------------------------------

def hosting_problems(mapping, computations):
    """Symptoms of 'each computation is hosted exactly once' on a {agent: [computation names]} mapping."""
    cnt = collections.Counter(c for comps in mapping.values() for c in comps)
    twice = sorted(c for c in computations if cnt[c] > 1)
    missing = sorted(c for c in computations if cnt[c] == 0)
    known = set(computations)
    foreign = sorted(c for c in cnt if c not in known)
    sym = (["hosted-twice"] if twice else []) + (["not-hosted"] if missing else [])
    return sym, {"hosted_twice": twice, "not_hosted": missing, "foreign": foreign}


def table_of(c):
    sc = sorted(v.name for v in c.dimensions)
    doms = {v.name: list(v.domain.values) for v in c.dimensions}
    rows = []
    for vals in itertools.product(*[doms[s] for s in sc]):
        rows.append((vals, c.get_value_for_assignment(dict(zip(sc, vals)))))
    return sc, rows


def sign_class(x):
    try:
        tag = "neg" if x < 0 else "pos" if x > 0 else "zero"
        return tag + ("-exp" if "e" in repr(float(x)) else "")
    except Exception:  # noqa
        return "nan"


def ising_direct(case, part, tmpdir=None, verbose=False):
    import pydcop.commands.generators.ising as isg

    rows, cols = case["rows"], case["cols"]
    res = {}
    for ext in (True, False):
        rnd = Rnd(case["draws"])
        with patched(isg, random=rnd):
            try:
                dcop, vm, fm = isg.generate_ising(
                    rows, cols, case["bin"], case["un"], ext,
                    no_agents=case["no_agents"], fg_dist=case["fg"], var_dist=case["var"],
                )
            except Unscripted:
                raise
            except Exception as e:  # noqa
                part.violation(
                    f"ising|generate_ising|raised|{type(e).__name__}|extensive={ext}",
                    f"generate_ising({case}, extensive={ext}) raised {e!r}", case)
                return ("raised", type(e).__name__)
        res[ext] = (dcop, vm, fm, list(rnd.floats))
    size = "size2" if min(rows, cols) == 2 else "size>2"
    out = []
    for ext in (True, False):
        dcop, vm, fm, _ = res[ext]
        variables, constraints = sorted(dcop.variables), sorted(dcop.constraints)
        for kind, flag, mapping, comps in (("var", case["var"], vm, variables),
                                           ("fg", case["fg"], fm, variables + constraints)):
            if not flag:
                continue
            sym, detail = hosting_problems(mapping, comps)
            if detail["foreign"]:
                part.count("ising_foreign_names_in_mappings")
            if sym:
                part.violation(
                    f"ising|generate_ising|{kind}_dist|{'+'.join(sym)}|{size}",
                    f"generate_ising({rows}x{cols}, extensive={ext}, {kind}_dist=True): {detail} "
                    f"(each of the {len(comps)} computations must be hosted exactly once)", case)
            if not case["no_agents"] and any(a not in dcop.agents for a in mapping):
                part.violation(
                    f"ising|generate_ising|{kind}_dist|host-is-not-an-agent",
                    f"generate_ising({case}): hosts {sorted(set(mapping) - set(dcop.agents))} are not agents", case)
            out.append((kind, sorted((a, tuple(c)) for a, c in mapping.items())))
    # intentional and extensive forms agree on every assignment for the same drawn values
    de, di = res[True][0], res[False][0]
    if not all(close(a, b) for a, b in itertools.zip_longest(res[True][3], res[False][3], fillvalue=None)):
        part.count("ising_forms_drew_differently")
    ve = {n: tuple(v.domain.values) for n, v in de.variables.items()}
    vi = {n: tuple(v.domain.values) for n, v in di.variables.items()}
    if ve != vi:
        part.violation("ising|forms-differ|variables", f"generate_ising({case}): variables {ve} vs {vi}", case)
    if sorted(de.constraints) != sorted(di.constraints):
        part.violation(
            "ising|forms-differ|constraint-names",
            f"generate_ising({case}): constraints {sorted(de.constraints)} vs {sorted(di.constraints)}", case)
    tables = []
    for cname in sorted(set(de.constraints) & set(di.constraints)):
        sce, te = table_of(de.constraints[cname])
        sci, ti = table_of(di.constraints[cname])
        tables.append((cname, tuple(v for _, v in te)))
        if sce != sci:
            part.violation(f"ising|forms-differ|scope|arity={len(sce)}",
                           f"generate_ising({case}): {cname} scope {sce} vs {sci}", case)
            continue
        for (vals, a), (_, b) in zip(te, ti):
            if not close(a, b):
                part.violation(
                    f"ising|forms-differ|arity={len(sce)}",
                    f"generate_ising({rows}x{cols}, bin_range={case['bin']}, un_range={case['un']}): {cname}"
                    f"{dict(zip(sce, vals))} extensive={a!r} intentional={b!r} (drawn k is {sign_class(te[0][1])})", case)
                break
    part.maxi("ising_variables", len(ve))
    part.maxi("ising_constraints", len(tables))
    if verbose:
        print("drawn values:", res[True][3])
        print("constraints (extensive form):", tables)
        print("var mapping:", res[True][1])
        print("fg mapping :", res[True][2])
    return (sorted(ve), tables, out)


class YamlSpy:
    """Stands in for `yaml` in ising: records what is dumped."""

    def __init__(self):
        import copy

        import yaml

        self._yaml, self._copy = yaml, copy
        self.dumped = []

    def __getattr__(self, name):
        return getattr(self._yaml, name)

    def dump(self, obj, *a, **k):
        self.dumped.append(self._copy.deepcopy(obj))
        return self._yaml.dump(obj, *a, **k)


def ising_cli(case, part, tmpdir, verbose=False):
    """ising.generate(args): the command function behind `pydcop generate ising`."""
    import pydcop.commands.generators.ising as isg

    rows, cols = case["rows"], case["cols"]
    out = os.path.join(tmpdir, "ising.yaml") if case["to_file"] else None
    args = argparse.Namespace(
        row_count=rows, col_count=cols, bin_range=case["bin"], un_range=case["un"], intentional=case["intentional"],
        no_agents=case["no_agents"], fg_dist=case["fg"], var_dist=case["var"], output=out,
    )
    mode = "cli-file" if case["to_file"] else "cli-stdout"
    spy, seen = YamlSpy(), []
    with patched(isg, random=Rnd(case["draws"]), yaml=spy, dcop_yaml=capturing(isg.dcop_yaml, seen)):
        try:
            with contextlib.redirect_stdout(io.StringIO()):
                isg.generate(args)
        except Unscripted:
            raise
        except Exception as e:  # noqa
            ecols = cols if cols else rows
            key = "rejects-documented-size-2" if (isinstance(e, ValueError) and min(rows, ecols) == 2) \
                else "raised|" + type(e).__name__
            part.violation(
                f"ising|cli|{key}",
                f"ising.generate(row_count={rows}, col_count={cols}, ...) raised {e!r}; the documentation allows "
                f"row_count >= 2 and col_count >= 2", case)
            return ("raised", type(e).__name__)
    if not seen:
        part.violation("ising|cli|no-dcop-output", f"ising.generate({case}) wrote no DCOP", case)
        return ("nodcop",)
    dcop = seen[-1]
    variables, constraints = sorted(dcop.variables), sorted(dcop.constraints)
    wanted = ([("fg", variables + constraints)] if case["fg"] else []) + ([("var", variables)] if case["var"] else [])
    dists = [d.get("distribution") if isinstance(d, dict) else None for d in spy.dumped]
    if len(dists) != len(wanted) or any(not isinstance(d, dict) for d in dists):
        part.violation(
            f"ising|{mode}|distributions-output={len(dists)}-requested={len(wanted)}",
            f"ising.generate({case}) output {len(dists)} distributions, {len(wanted)} requested", case)
        return ("count", len(dists))
    # which output is which is not visible on stdout: take the most favourable matching
    best = None
    for perm in itertools.permutations(range(len(dists))):
        found = []
        for (kind, comps), i in zip(wanted, perm):
            sym, detail = hosting_problems(dists[i], comps)
            if sym:
                found.append((kind, sym, detail, len(comps)))
        if best is None or len(found) < len(best):
            best = found
    for kind, sym, detail, ncomp in best:
        part.violation(
            f"ising|{mode}|{kind}_dist|{'+'.join(sym)}",
            f"ising.generate(row_count={rows}, col_count={cols}, fg_dist={case['fg']}, var_dist={case['var']}, "
            f"output={'file' if out else 'stdout'}): the {kind} distribution output has "
            f"{ {k: v[:4] for k, v in detail.items() if v} } (each of the {ncomp} computations must be hosted exactly once)",
            case)
    if verbose:
        print("variables:", variables)
        print("distributions output:", dists)
    return (len(variables), len(constraints), [sorted((a, tuple(c)) for a, c in d.items()) for d in dists])


def unit_spec(vec=(), fill=(0,)):
    return {"menu": UNITS, "vec": list(vec), "fill": list(fill)}


def ising_cases(quick):
    sizes = [2, 3, 4] if quick else [2, 3, 4, 5]
    ranges = [(1.6, 0.05), (0.0, 0.0), (100.0, 1e-05)]
    base_patterns = [unit_spec(fill=[k]) for k in range(len(UNITS))] + [unit_spec(fill=[0, 2]), unit_spec(fill=[4, 3, 1, 2, 0])]
    flags = list(itertools.product([False, True], repeat=3))
    for rows in sizes:
        for cols in sizes:
            for br, ur in ranges:
                for no_agents, fg, var in flags:
                    for spec in base_patterns:
                        yield dict(fam="ising", rows=rows, cols=cols, bin=br, un=ur, no_agents=no_agents, fg=fg, var=var,
                                   draws=spec)
            # every single draw against the others (each draw feeds exactly one constraint)
            ndraws = rows * cols + len(periodic_edges(rows, cols))
            for pos in range(ndraws):
                for hot, rest in [(0, 2), (2, 0), (3, 0), (4, 2), (1, 0)]:
                    yield dict(fam="ising", rows=rows, cols=cols, bin=1.6, un=0.05, no_agents=False, fg=True, var=True,
                               draws=unit_spec(vec=[rest] * pos + [hot], fill=[rest]))
    # all answer vectors on the smallest grid (2x2: 4 unary + 4 binary draws)
    menu = [0, 2] if quick else [0, 1, 2]
    for v in itertools.product(menu, repeat=8):
        yield dict(fam="ising", rows=2, cols=2, bin=1.6, un=0.05, no_agents=False, fg=True, var=True, draws=unit_spec(vec=v))
    # the command function
    for rows in [2, 3, 4]:
        for cols in [None, 2, 3, 4]:
            for intentional in [False, True]:
                for no_agents, fg, var in flags:
                    for to_file in [False, True]:
                        for spec in [unit_spec(fill=[0]), unit_spec(fill=[4, 3, 1, 2, 0])]:
                            yield dict(fam="ising_cli", rows=rows, cols=cols, bin=1.6, un=0.05, intentional=intentional,
                                       no_agents=no_agents, fg=fg, var=var, to_file=to_file, draws=spec)


def periodic_edges(rows, cols):
    """Edges of the rows x cols grid with toroidal links (simple graph)."""
    e = set()
    for r in range(rows):
        for c in range(cols):
            for r2, c2 in (((r + 1) % rows, c), (r, (c + 1) % cols)):
                if (r2, c2) != (r, c):
                    e.add(frozenset([(r, c), (r2, c2)]))
    return e


# --------------------------------------------------------------------------------------------------------------
# scenario
# --------------------------------------------------------------------------------------------------------------

def scenario_problems(scenario, agents, evts, actions):
    """Reference bookkeeping: every event removes `actions` distinct agents never removed before."""
    problems = []
    removed, summary = set(), []
    action_events = [e for e in scenario.events if e.actions is not None]
    if len(action_events) != evts:
        problems.append(("events-count", f"{len(action_events)} events with actions, {evts} requested"))
    for e in action_events:
        names = []
        for a in e.actions:
            if a.type != "remove_agent" or "agent" not in a.args:
                problems.append(("not-a-removal", f"event {e.id}: action {a!r}"))
            else:
                names.append(a.args["agent"])
        summary.append(tuple(names))
        if len(e.actions) != actions:
            problems.append(("event-size", f"event {e.id} has {len(e.actions)} actions, {actions} requested"))
        if len(set(names)) != len(names):
            problems.append(("same-agent-twice-in-event", f"event {e.id} removes {names}"))
        if any(n not in agents for n in names):
            problems.append(("unknown-agent", f"event {e.id} removes {names}, agents are {agents}"))
        again = sorted(set(names) & removed)
        if again:
            problems.append(("removed-again", f"event {e.id} removes {again}, already removed before"))
        removed |= set(names)
    return problems, summary


def scenario_case(case, part, tmpdir, verbose=False):
    import pydcop.commands.generators.scenario as sc

    agents, evts, actions = case["agents"], case["evts"], case["actions"]
    cli = case["fam"] == "scenario_cli"
    seen = []

    def fn():
        del seen[:]
        try:
            if not cli:
                return "ok", sc.generate_scenario(evts, actions, case["delay"], case["init"], case["end"], list(agents))
            dcop_file = os.path.join(tmpdir, "dcop.yaml")
            with open(dcop_file, "w", encoding="utf-8") as f:
                f.write("name: t\nobjective: min\ndomains:\n  d: {values: [0, 1]}\nvariables:\n  x: {domain: d}\n"
                        "constraints:\n  c: {type: intention, function: x}\nagents: [" + ", ".join(agents) + "]\n")
            args = argparse.Namespace(
                evts_count=evts, actions_count=actions, delay=case["delay"], initial_delay=case["init"],
                end_delay=case["end"], dcop_files=[dcop_file] if case["opt"] else None,
                dcop_files_end=None if case["opt"] else [dcop_file],
                output=os.path.join(tmpdir, "scenario.yaml") if case["to_file"] else None,
            )
            with contextlib.redirect_stdout(io.StringIO()):
                sc.generate(args)
            return "ok", (seen[-1] if seen else None)
        except Exception as e:  # noqa
            return "raised", e

    results = []
    fac = choice.RandomFacade("scenario", max_perm=6)
    with patched(sc, random=fac, yaml_scenario=capturing(sc.yaml_scenario, seen)):
        prefixes = [tuple(case["answers"])] if "answers" in case else None
        runs = all_runs(fn) if prefixes is None else replay_runs(fn, prefixes)
        for taken, (tag, res) in runs:
            part.count("scenario_answer_vectors")
            rcase = dict(case, answers=taken)
            if tag == "raised" or res is None:
                part.violation(f"scenario|raised|{type(res).__name__}",
                               f"generate_scenario({case}) with sample answers {taken} raised {res!r}", rcase)
                results.append(("raised", type(res).__name__))
                continue
            problems, summary = scenario_problems(res, agents, evts, actions)
            for key, text in problems:
                part.violation(f"scenario|{key}", f"generate_scenario(evts={evts}, actions={actions}, agents={agents}) "
                                                  f"with sample answers {taken}: {text}; events {summary}", rcase)
            results.append(tuple(summary))
            if verbose:
                print("sample answers", taken, "-> removals per event:", summary, "problems:", problems)
    return sorted(results, key=repr)


def replay_runs(fn, prefixes):
    for p in prefixes:
        ctl = choice.set_controller(choice.Controller(p))
        r = fn()
        yield list(ctl.taken), r
    choice.set_controller(choice.Controller())


def scenario_cases(quick):
    pool = ["a1", "a2", "a10", "b", "A3"]
    for n in ([1, 2, 3, 4] if quick else [1, 2, 3, 4, 5]):
        for order in ([0] if n < 3 else [0, 1]):
            agents = pool[:n] if order == 0 else pool[:n][::-1]
            for evts in range(0, n + 1):
                for actions in range(0, n + 1):
                    if evts * actions > n:
                        continue  # more removals than agents: not valid arguments
                    for delay, init, end in [(10, 20, 20), (0, 0, 0)]:
                        yield dict(fam="scenario", agents=agents, evts=evts, actions=actions, delay=delay, init=init, end=end)
    for evts, actions in [(1, 1), (2, 1), (1, 2), (3, 1)]:
        for opt in [True, False]:
            for to_file in [True, False]:
                yield dict(fam="scenario_cli", agents=["a1", "a2", "a10"], evts=evts, actions=actions, delay=10, init=20,
                           end=20, opt=opt, to_file=to_file)


# --------------------------------------------------------------------------------------------------------------
# driver
# --------------------------------------------------------------------------------------------------------------

def all_cases(quick):
    return itertools.chain(gc_cases(quick), ising_cases(quick), scenario_cases(quick))


def nontrivial(case):
    """Non-trivial: the instance has at least one constraint / a drawn value that is not the first menu entry /
    at least one removal."""
    fam = case["fam"]
    if fam == "gc":
        return bool(gc_expected_edges(case))
    if fam in ("ising", "ising_cli"):
        return case["fg"] or case["var"] or any(case["draws"]["vec"]) or any(case["draws"]["fill"])
    return case["evts"] * case["actions"] > 0


def run_case(case, part, tmpdir, verbose=False):
    fam = case["fam"]
    if fam == "gc":
        return gc_case(case, part, tmpdir, verbose)
    if fam == "ising":
        return ising_direct(case, part, tmpdir, verbose)
    if fam == "ising_cli":
        return ising_cli(case, part, tmpdir, verbose)
    return scenario_case(case, part, tmpdir, verbose)


def shard(args):
    idx, n, quick = args
    part = Part()
    sampled = set()
    with tempfile.TemporaryDirectory(prefix="c30_") as tmpdir:
        for i, case in enumerate(all_cases(quick)):
            if i % n != idx:
                continue
            out = run_case(case, part, tmpdir)
            part.count("evaluations")
            part.count("cases_" + case["fam"])
            if nontrivial(case):
                part.nontriv(repr(sorted(case.items())))
            part.outcome(repr((case["fam"], out)))
            if case["fam"] not in sampled and nontrivial(case) and idx == {"gc": 1, "ising": 2, "ising_cli": 3}.get(case["fam"], 4):
                sampled.add(case["fam"])
                part.sample({"case": case, "observed": repr(out)[:400]})
    return part


def run(ctx):
    ctx.level = "exploration"
    ctx.rule = (
        "graph colouring: graphcoloring.generate(args) for every labelled graph on 1..4 nodes injected as the answer of "
        "gnp_random_graph (with --allow_subgraph: all; without: every connected answer, every disconnected answer followed "
        "by connected ones, on <=3 nodes also two disconnected answers first), grids of 1/4/9(/16) variables, every graph "
        "of the Barabasi-Albert support on 2..4 nodes x every answer of random.shuffle; x colours {1,2,3} (8 on two small "
        "graphs) x {hard extensive, hard intentional, soft} x noagents x output {stdout,file}; soft costs: randint answers "
        "all-0, all-9, two cyclic patterns, plus ALL answer vectors over {0..9} ({0,5,9} in quick) when <=4 cells and over "
        "{0,9} when <=8 cells. Ising: generate_ising for rows x cols in {2,3,4}(,5)^2 x 3 range pairs x no_agents x fg_dist x "
        "var_dist, both forms with the same scripted uniform answers (7 patterns over the menu -r,0,+r,tiny+,tiny-; every "
        "single draw singled out against the others; ALL vectors over a 2(3)-point menu on the 2x2 grid), and "
        "ising.generate(args) for rows {2,3,4} x cols {none,2,3,4} x all flags x output {stdout,file}. Scenario: "
        "generate_scenario for <=4(5) agents x all (events, actions) with events*actions <= agents, EVERY answer (ordered "
        "k-subset) of every random.sample call enumerated depth-first, plus scenario.generate(args) on a 3-agent DCOP file. "
        "Non-trivial = at least one edge / a distribution requested or a non-first menu answer / at least one removal."
    )
    ctx.assumptions = [
        "networkx.barabasi_albert_graph(n, m) can return exactly: star on m+1 nodes, then node k attached to any m earlier nodes (read from networkx 3.6 source); only these graphs are injected for scalefree.",
        "networkx.is_isomorphic / is_connected / grid_2d_graph are trusted (is_isomorphic only decides whether a constraint graph that differs from the order-preserving naming is a renaming of the injected graph).",
        "The DCOP observed is the object handed to dcop_yaml (the YAML text itself is C14's subject); Ising distributions of the command function are the objects handed to yaml.dump.",
        "Names hosted by a distribution that are not computations of the graph are not counted as violations (the property only requires each computation to be hosted exactly once).",
        "Uniform/randint answers beyond the fully enumerated sizes follow the stated pattern family (every draw sees every menu value; draws are consumed by exactly one constraint cell each).",
    ]
    ctx.pmap(shard, ctx.rotate([(i, NSHARDS, ctx.quick) for i in range(NSHARDS)]))


def replay(case):
    part = Part()
    with tempfile.TemporaryDirectory(prefix="c30_") as tmpdir:
        out = run_case(case, part, tmpdir, verbose=True)
    print("observed:", repr(out)[:1000])
    for v in part.violations:
        print(v["key"], "::", v["what"])
    return bool(part.violations)
