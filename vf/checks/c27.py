"""C27 After an agent removal every computation runs on exactly one live agent (THRX, fault enumeration).

The real resilient pipeline, exactly as `pydcop run` drives it: run_local_thread_dcop(replication='dist_ucs_hostingcosts'),
deploy_computations, start_replication(k), wait_ready, run(scenario, timeout) under the cooperative scheduler with virtual
time. Fault enumeration: every subset of <= k agents removed in one scenario event, for several small deployments;
schedule exploration: fair default schedule + single deviations inside the window [event injection, repair done]; the
repair DCOP's (MGM2) random answers: default + single deviations.
"""
import itertools
import os

from vf.checks import rt_common
from vf.core import choice as choice_mod
from vf.core import gen, thrx
from vf.core.runner import Part

RUN_TIMEOUT = 45  # virtual seconds: Orchestrator._process_event waits a hard-coded 20 s timer when agents are not 'running' yet


def deployments(tier):
    q = tier == "quick"
    B = gen.T3_BIN
    chain = {"vars": {f"v{i}": [0, 1] for i in range(4)}, "cons": [{"name": f"c{i}", "scope": [f"v{i}", f"v{i + 1}"], "table": B[(2 * i) % 6]} for i in range(3)], "mode": "min"}
    star = {"vars": {f"v{i}": [0, 1] for i in range(4)}, "cons": [{"name": f"c{i}", "scope": ["v0", f"v{i}"], "table": B[(2 * i) % 6]} for i in range(1, 4)], "mode": "min"}
    out = []
    for name, spec in (("chain", chain), ("star", star)):
        for k in (1, 2):
            agents = [f"a{i}" for i in range(4)]
            mapping = {f"a{i}": [f"v{i}"] for i in range(4)}
            out.append({"name": f"{name}-4agents-k{k}", "spec": spec, "agents": agents, "mapping": mapping, "k": k, "algo": "adsa", "params": {"period": 0.5}})
        # a0 hosts TWO computations, both replicated on a1 and a2 (the only agents UCS reaches); hosting costs make the repair split
        # them (v0 -> a1, v1 -> a2): each of the two agents is candidate for both orphans and selected for one only
        agents = [f"a{i}" for i in range(5)]
        out.append({"name": f"{name}-5agents-k2-split", "spec": spec, "agents": agents, "mapping": {"a0": ["v0", "v1"], "a1": ["v2"], "a2": ["v3"], "a3": [], "a4": []},
                    "k": 2, "algo": "adsa", "params": {"period": 0.5},
                    "hosting": {"a1": {"v1": 10}, "a2": {"v0": 10}}, "only_removed": [["a0"]]})
        if not q:
            agents = [f"a{i}" for i in range(5)]
            mapping = {"a0": ["v0", "v1"], "a1": ["v2"], "a2": ["v3"], "a3": [], "a4": []}
            out.append({"name": f"{name}-5agents-k2", "spec": spec, "agents": agents, "mapping": mapping, "k": 2, "algo": "adsa", "params": {"period": 0.5}})
            out.append({"name": f"{name}-4agents-k2-mgm", "spec": spec, "agents": [f"a{i}" for i in range(4)], "mapping": {f"a{i}": [f"v{i}"] for i in range(4)}, "k": 2, "algo": "mgm", "params": {"stop_cycle": 0}})
    return out


def jobs_for(tier):
    out = []
    for dep in deployments(tier):
        hosts = [a for a in dep["agents"]]
        for r in range(1, dep["k"] + 1):
            for removed in itertools.combinations(hosts, r):
                if tier == "quick" and "only_removed" in dep and list(removed) not in dep["only_removed"]:
                    continue
                out.append(dict(dep, removed=list(removed), events=[list(removed)]))
    # two successive events (each within k): the second one removes any of the survivors, in particular the new host
    for dep in deployments(tier):
        if dep["k"] != 1 or len(dep["agents"]) != 4 or dep["algo"] != "adsa":
            continue
        firsts = ["a1"] if tier == "quick" else dep["agents"]
        for first in firsts:
            for second in dep["agents"]:
                if second != first:
                    out.append(dict(dep, name=dep["name"] + "-2events", removed=[first, second], events=[[first], [second]]))
    return out


class Probe:
    """Observation hooks installed from the harness side (class-level wrappers, removed after each execution)."""

    def __init__(self):
        self.agents = []
        self.before = None
        self.repairs = []  # (status, choice index, clock)
        self.event_at = None
        self.undo = []

    def install(self):
        from pydcop.infrastructure import orchestratedagents, orchestrator

        probe = self
        OA = orchestratedagents.OrchestratedAgent
        o_init = OA.__init__

        def init(agent, *a, **k):
            o_init(agent, *a, **k)
            probe.agents.append(agent)

        OA.__init__ = init
        self.undo.append((OA, "__init__", o_init))
        Mgt = orchestrator.AgentsMgt
        o_evt = Mgt._orchestrator_scenario_event

        def evt(mgt, msg, t):
            comps = [n.name for n in mgt.graph.nodes]
            probe.before = {
                "replicas": {c: sorted(mgt.discovery.replica_agents(c)) for c in comps},
                "hosts": {c: _safe(lambda: mgt.discovery.computation_agent(c)) for c in comps},
            }
            probe.event_at = len(thrx.cur().taken)
            probe.draw_at_event = len(choice_mod.CURRENT.taken)
            if not hasattr(probe, "first_event_at"):
                probe.first_event_at, probe.first_draw_at = probe.event_at, probe.draw_at_event
            probe.removed_so_far = getattr(probe, "removed_so_far", []) + [a.args["agent"] for a in msg.content.actions if a.type == "remove_agent"]
            return o_evt(mgt, msg, t)

        Mgt._orchestrator_scenario_event = evt
        self.undo.append((Mgt, "_orchestrator_scenario_event", o_evt))
        o_dump = Mgt._dump_repair_metrics

        def dump(mgt, status, duration):
            probe.repairs.append((status, len(thrx.cur().taken), thrx.cur().clock, len(choice_mod.CURRENT.taken)))
            probe.mgt = mgt
            return o_dump(mgt, status, duration)

        Mgt._dump_repair_metrics = dump
        self.undo.append((Mgt, "_dump_repair_metrics", o_dump))

    def uninstall(self):
        for cls, name, orig in reversed(self.undo):
            setattr(cls, name, orig)
        self.undo = []


def _safe(f):
    try:
        return f()
    except Exception as e:  # noqa: UnknownComputation etc.
        return f"<{type(e).__name__}>"


def scenario_for(job, probe, draws=()):
    def scenario(sched):
        import importlib

        from pydcop.algorithms import AlgorithmDef, load_algorithm_module
        from pydcop.dcop.scenario import DcopEvent, EventAction, Scenario
        from pydcop.distribution.objects import Distribution
        from pydcop.infrastructure.run import run_local_thread_dcop
        import pydcop.algorithms.mgm2 as mgm2
        import pydcop.dcop.relations as rel
        import pydcop.infrastructure.agents as agents_mod
        import pydcop.infrastructure.computations as comp_mod
        import pydcop.replication.dist_ucs_hostingcosts as ucs

        algo_module = load_algorithm_module(job["algo"])
        for m in (mgm2, algo_module, rel, comp_mod, agents_mod, ucs):
            choice_mod.install(m)
        ctl = choice_mod.set_controller(choice_mod.Controller(draws))
        probe.install()
        try:
            spec = job["spec"]
            dcop = rt_common.make_dcop(spec, job["agents"], hosting=job.get("hosting"))
            cg = importlib.import_module("pydcop.computations_graph." + algo_module.GRAPH_TYPE).build_computation_graph(dcop)
            algo = AlgorithmDef.build_with_default_param(job["algo"], dict(job["params"]), mode=spec["mode"])
            dist = Distribution({a: list(cs) for a, cs in job["mapping"].items()})
            orch = run_local_thread_dcop(algo, cg, dist, dcop, rt_common.INFINITY, replication="dist_ucs_hostingcosts")
            orch.deploy_computations()
            orch.start_replication(job["k"])
            ready = orch.wait_ready()
            snap = {}

            def observer():
                # once the repair for the event completes, let the queues drain for one virtual second, then look
                thrx.cur().block(lambda: len(probe.repairs) >= len(job["events"]), None, "observer.wait")
                thrx.vsleep(1.0)
                mgt = probe.mgt
                comps = sorted(n.name for n in mgt.graph.nodes)
                snap["directory"] = {c: _safe(lambda: mgt.discovery.computation_agent(c)) for c in comps}
                snap["actual"] = {
                    a.name: sorted(c.name for c in a.computations()) for a in probe.agents if a.is_running and a.name not in job["removed"]
                }
                snap["removed_still_running"] = [a.name for a in probe.agents if a.name in job["removed"] and a.is_running]
                # a hosted computation that was never started does not run anywhere ("runs on exactly one live agent")
                snap["never_started"] = sorted(c.name for a in probe.agents if a.is_running and a.name not in job["removed"] for c in a.computations() if c.name in comps and not c.is_running)
                snap["clock"] = thrx.cur().clock

            obs = thrx.VThread(target=observer, name="observer", daemon=True)
            obs.start()
            evts = [DcopEvent("init", delay=1)]
            for i, removed in enumerate(job["events"]):
                if i:
                    evts.append(DcopEvent(f"d{i}", delay=3))
                evts.append(DcopEvent(f"e{i}", actions=[EventAction("remove_agent", agent=a) for a in removed]))
            evts.append(DcopEvent("end", delay=4))
            sc = Scenario(evts)
            orch.run(sc, timeout=RUN_TIMEOUT)
            return {"ready": ready, "status": orch.status, "snap": snap, "before": probe.before, "repairs": [r[0] for r in probe.repairs],
                    "window": (getattr(probe, "first_event_at", None), probe.repairs[-1][1] if probe.repairs else None),
                    "draw_window": (getattr(probe, "first_draw_at", None), probe.repairs[-1][3] if probe.repairs else None),
                    "draws": list(ctl.taken), "draw_arity": list(ctl.arity)}
        finally:
            probe.uninstall()

    return scenario


def judge(job, tag, choices, draws, result, outcome, part, files):
    case = {"job": job, "choices": choices, "draws": draws}
    where = f"{job['name']} removed={job['removed']}"
    if outcome["abort"] and outcome["abort"][0] == "divergence":
        raise RuntimeError("replay divergence " + str(outcome["abort"]))
    if outcome["crash"]:
        part.violation(f"C27|main-thread-raised|{outcome['crash'][0]}", f"{where}: {outcome['crash'][:2]}", case)
        return "crash"
    if outcome["abort"]:
        part.violation(f"C27|no-termination|{outcome['abort'][0]}", f"{where}: {outcome['abort'][1]}", case)
        return "abort"
    if len(result["repairs"]) < len(job["events"]) or not result["snap"]:
        part.violation("C27|repair-never-completed", f"{where}: no repair completion was reported before the run ended (status {result['status']}); thread errors {outcome['thread_errors']}", case)
        return "no-repair"
    snap, before = result["snap"], result["before"]
    comps = sorted(job["spec"]["vars"])
    problems = []
    for c in comps:
        h = snap["directory"].get(c)
        actual = sorted(a for a, cs in snap["actual"].items() if c in cs)
        if not isinstance(h, str) or h.startswith("<") or h in job["removed"]:
            problems.append(("directory-host-missing-or-removed", c, h, actual))
        elif actual != [h]:
            kind = "hosted-by-nobody" if not actual else ("hosted-twice" if len(actual) > 1 else "directory-disagrees-with-agents")
            problems.append((kind, c, h, actual))
        if before["hosts"].get(c) in job["events"][-1] and isinstance(h, str) and h not in before["replicas"].get(c, []) and not h.startswith("<"):
            problems.append(("new-host-held-no-replica", c, h, before["replicas"].get(c)))
        if c in snap.get("never_started", ()):
            problems.append(("hosted-but-never-started", c, h, actual))
    status = result["repairs"][-1]
    fstatus = files.get("status")
    if problems:
        kinds = sorted({p[0] for p in problems})
        part.violation(f"C27|{'+'.join(kinds)}|reported={status}", f"{where}: after the repair completed (reported {status}): {problems}; directory={snap['directory']} agents={snap['actual']} replicas-before={before['replicas']}", case)
        return "bad:" + ",".join(kinds)
    if status != "OK":
        part.count("repairs_reported_KO_although_consistent")
    return "ok"


def run_one(args):
    job, mode, shard, nshards = args
    part = Part()
    undo = thrx.install()
    try:
        with rt_common.sandbox() as d:
            def execute(choices, draws, tag):
                probe = Probe()
                sched, result, outcome = thrx.execute(scenario_for(job, probe, draws), choices, horizon=150.0)
                probe.uninstall()
                files = {}
                for f in os.listdir(d):
                    if f.startswith("evtdist_"):
                        txt = open(os.path.join(d, f)).read()
                        files["status"] = "OK" if "status: OK" in txt else "KO"
                    os.unlink(os.path.join(d, f))
                v = judge(job, tag, list(sched.taken), list(draws), result, outcome, part, files)
                part.count("evaluations")
                part.count("traces")
                part.count("transitions", outcome["points"])
                part.maxi("points", outcome["points"])
                part.outcome((job["name"], tuple(job["removed"]), v, repr(result and result["snap"].get("directory"))))
                part.nontriv((job["name"], tuple(job["removed"]), tag))
                if part.counters["evaluations"] == 1 and shard == 0:
                    part.sample({"job": {k: job[k] for k in ("name", "removed", "k", "agents", "mapping")}, "result": result and {k: result[k] for k in ("status", "snap", "before", "repairs", "window")}, "points": outcome["points"]}, cap=1)
                return sched, result

            sched, result = execute([], (), "default")
            part.count("states")
            if mode == "default" or not result or not result.get("window") or result["window"][1] is None:
                return part
            lo, hi = result["window"]
            taken, arity = list(sched.taken), list(sched.arity)
            # single schedule deviations inside the repair window
            positions = [(i, alt) for i in range(lo, min(hi, len(taken))) for alt in range(1, arity[i])]
            for n, (i, alt) in enumerate(positions):
                if n % nshards != shard:
                    continue
                execute(taken[:i] + [alt], (), f"sched:{i}:{alt}")
                part.count("states")
            # single deviations of the random answers drawn inside the window (repair MGM2, replication)
            dlo, dhi = result["draw_window"]
            dt, da = result["draws"], result["draw_arity"]
            dpos = [(i, alt) for i in range(dlo or 0, min(dhi or 0, len(dt))) for alt in range(1, da[i])]
            for n, (i, alt) in enumerate(dpos):
                if n % nshards != shard:
                    continue
                execute([], tuple(dt[:i]) + (alt,), f"draw:{i}:{alt}")
                part.count("states")
    finally:
        thrx.uninstall(undo)
    return part


def run(ctx):
    ctx.level = "fault_enumeration"
    jobs = jobs_for(ctx.tier)
    items = []
    for j in jobs:
        deep = (not ctx.quick) or (j["name"] == "chain-4agents-k1" and j["removed"] == ["a1"]) or (j["name"] == "star-4agents-k1-2events" and j["removed"] == ["a1", "a0"])
        if deep:
            n = 16 if ctx.quick else 32
            items.extend((j, "window", s, n) for s in range(n))
        else:
            items.append((j, "default", 0, 1))
    ctx.rule = (
        "fault enumeration on the REAL resilient runtime (thread mode, replication dist_ucs_hostingcosts, A-DSA period 0.5 (thorough also MGM "
        "stop_cycle=0), scenario with one or two removal events) under the cooperative scheduler: for every deployment (chain / star DCOP of 4 variables, "
        "4 (thorough also 5) agents with ample capacity, k in {1,2}) EVERY subset of <= k agents is removed in one event; for the k=1 deployments "
        "also TWO successive events of one agent each (quick: a1 then every survivor; thorough: every ordered pair), 3 virtual seconds apart; "
        "each case runs the fair default schedule; for the deep cases (quick: chain k=1 removing a1, star k=1 removing a1 then the hub a0; "
        "thorough: all) additionally every single schedule deviation inside the "
        "window [first event injection, last repair completion] and every single deviation of the random answers drawn inside that window. Oracle one "
        "virtual second after the orchestrator's last repair completion: every original computation is in the directory on exactly one surviving "
        "agent, exactly that agent's computations() contains it, a re-hosted computation's host held its replica before the event, and the "
        "repair is not reported OK otherwise. evaluations = executions; non-trivial = distinct (deployment, removed set, deviation)"
    )
    ctx.assumptions = [
        "Scheduling points at synchronisation operations only; virtual time; in-process transport.",
        "Algorithm / replication / repair random draws are explorer-owned (default answer 0 + single deviations), not sampled.",
        "At most two removal events per run (each within k); agents with ample capacity (1000); the solving algorithm does not terminate by itself.",
    ]
    ctx.pmap(run_one, items)


def replay(case):
    job = case["job"]
    undo = thrx.install()
    part = Part()
    try:
        with rt_common.sandbox() as d:
            probe = Probe()
            sched, result, outcome = thrx.execute(scenario_for(job, probe, tuple(case.get("draws", ()))), case.get("choices", []), horizon=150.0)
            probe.uninstall()
            v = judge(job, "replay", list(sched.taken), list(case.get("draws", ())), result, outcome, part, {})
    finally:
        thrx.uninstall(undo)
    print("verdict:", v)
    print(result and {k: result[k] for k in ("status", "snap", "before", "repairs")})
    for x in part.violations:
        print(x["what"])
    return v != "ok"
