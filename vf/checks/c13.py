"""C13 Solution cost accounting matches the DCOP definition.

Bounded-exhaustive enumeration (E2) of small DCOPs (1-3 decision variables, 0-1 external variable with each
value, 0-3 constraints, variable cost functions) against a ten-line reference model: the *terms* of a complete
assignment are the value of every constraint and the cost of every variable; `solution_cost` must return
(number of terms equal to `infinity`, sum of the other terms), reject every incomplete assignment with
ValueError, and `assignment_cost` must return the sum of the constraint values (+ the cost of every variable in
the scope of these constraints, once, when requested).

Tables are *rotations* of the value alphabet over the cells of the scope (cell i of rotation k holds
ALPHA[(i+k) % len(ALPHA)]): for every scope structure and every complete assignment, every combination of term
values of the alphabet occurs.
"""
import itertools

from vf.core.runner import Part

INF = float("inf")
INFINITIES = [10000, INF]
VAR_NAMES = ["vb", "va", "vc"]  # list order differs from sorted order
EXT = "ve"
DOMAINS = {"vb": [0, 1], "va": ["a", "b"], "vc": [0, 1], "ve": [0, 1]}  # falsy 0, str values
COST_KINDS = ["dict", "func", "expr"]
ABSENT = "<absent>"


# ------------------------------------------------------------------ plain data helpers

def enc(v):
    """JSON-able form of a cost (inf cannot be written in JSON)."""
    if isinstance(v, float) and v == INF:
        return "inf"
    return v


def dec(v):
    return INF if v == "inf" else v


def lit(v):
    return "float('inf')" if v == INF else repr(v)


def cells_of(scope):
    return list(itertools.product(*[DOMAINS[s] for s in scope]))


def rot_table(scope, k, alpha):
    return {cell: alpha[(i + k) % len(alpha)] for i, cell in enumerate(cells_of(scope))}


def cost_table(name, vc, alpha):
    kind, j = vc
    if kind == "none":
        return None
    return {val: alpha[(i + j) % len(alpha)] for i, val in enumerate(DOMAINS[name])}


def all_names(n, ext):
    return VAR_NAMES[:n] + ([EXT] if ext is not None else [])


def scopes_of(names, max_arity):
    return [c for r in range(1, max_arity + 1) for c in itertools.combinations(names, r)]


def constraint_sets(names, max_arity, max_m, alpha):
    """all multisets of <= max_m (scope, rotation) pairs, fewest constraints first"""
    opts = [(s, k) for s in scopes_of(names, max_arity) for k in range(len(alpha))]
    for m in range(max_m + 1):
        for combo in itertools.combinations_with_replacement(opts, m):
            yield combo


def count_constraint_sets(names, max_arity, max_m, alpha):
    o = len(scopes_of(names, max_arity)) * len(alpha)
    total, c = 0, 1
    for m in range(max_m + 1):
        total += c
        c = c * (o + m) // (m + 1)
    return total


def assignments(names, partial):
    """every assignment of `names`; with partial=True also every assignment of every subset"""
    opts = [([ABSENT] if partial else []) + DOMAINS[n] for n in names]
    for combo in itertools.product(*opts):
        yield {n: v for n, v in zip(names, combo) if v is not ABSENT}


def close(a, b):
    try:
        a, b = float(a), float(b)
    except (TypeError, ValueError):
        return False
    if a == b:
        return True
    if a != a or b != b or abs(a) == INF or abs(b) == INF:
        return False
    return abs(a - b) <= 1e-9 * max(1, abs(a), abs(b))


# ------------------------------------------------------------------ reference model (the oracle)

class Model:
    """Pure-data description of one DCOP and the reference accounting."""

    def __init__(self, n, ext, vcs, cons, alpha):
        self.n, self.ext, self.vcs, self.cons_param, self.alpha = n, ext, [tuple(v) for v in vcs], cons, alpha
        self.names = VAR_NAMES[:n]
        self.all = all_names(n, ext)
        self.costs = {name: cost_table(name, vc, alpha) for name, vc in zip(self.names, self.vcs)}
        self.cons = [("c%d" % i, tuple(scope), rot_table(tuple(scope), k, alpha)) for i, (scope, k) in enumerate(cons)]

    def full(self, assignment):
        f = dict(assignment)
        if self.ext is not None:
            f[EXT] = self.ext
        return f

    def var_cost(self, name, val):
        t = self.costs.get(name)
        return 0 if t is None else t[val]

    def terms(self, full):
        con = [table[tuple(full[s] for s in scope)] for _, scope, table in self.cons]
        var = [self.var_cost(v, full[v]) for v in self.all]
        return con, var

    def solution_cost(self, full, infinity):
        con, var = self.terms(full)
        terms = con + var
        return sum(1 for t in terms if t == infinity), sum(t for t in terms if t != infinity)

    def assignment_cost(self, full, consider_variable_cost):
        cost = sum(table[tuple(full[s] for s in scope)] for _, scope, table in self.cons)
        if consider_variable_cost:
            in_scope = [v for v in self.all if any(v in scope for _, scope, _ in self.cons)]
            cost += sum(self.var_cost(v, full[v]) for v in in_scope)
        return cost

    def describe(self):
        cons = [(name, scope, {str(c): enc(v) for c, v in table.items()}) for name, scope, table in self.cons]
        costs = {v: (kind, {str(k): enc(c) for k, c in self.costs[v].items()}) for v, (kind, _) in zip(self.names, self.vcs) if self.costs[v]}
        ext = f", external={{{EXT!r}: {self.ext}}}" if self.ext is not None else ""
        return f"DCOP(variables={self.names}, variable costs={costs}{ext}, constraints={cons})"

    def case(self, kind, **kw):
        c = {"n": self.n, "ext": self.ext, "vcs": [list(v) for v in self.vcs],
             "cons": [[list(s), k] for s, k in self.cons_param], "alpha": [enc(a) for a in self.alpha], "kind": kind}
        c.update(kw)
        return c


# ------------------------------------------------------------------ the real objects

class World:
    """pyDCOP objects for one (variables, external variable) configuration; relations are cached."""

    def __init__(self, n, ext, vcs, alpha):
        from pydcop.dcop.objects import Domain, ExternalVariable, Variable, VariableWithCostDict, VariableWithCostFunc
        from pydcop.utils.expressionfunction import ExpressionFunction

        self.n, self.ext, self.alpha = n, ext, alpha
        self.names = VAR_NAMES[:n]
        self.vars = {}
        for name, vc in zip(self.names, vcs):
            dom = Domain("d_" + name, "t", list(DOMAINS[name]))
            table = cost_table(name, tuple(vc), alpha)
            kind = vc[0]
            if kind == "none":
                v = Variable(name, dom)
            elif kind == "dict":
                # zero entries are left out: a value without entry costs nothing
                v = VariableWithCostDict(name, dom, {val: c for val, c in table.items() if c != 0})
            elif kind == "func":
                v = VariableWithCostFunc(name, dom, lambda val, t=table: t[val])
            elif kind == "expr":
                body = ", ".join(f"{val!r}: {lit(c)}" for val, c in table.items())
                v = VariableWithCostFunc(name, dom, ExpressionFunction("{" + body + "}[" + name + "]"))
            else:
                raise ValueError(kind)
            self.vars[name] = v
        self.extvar = None
        if ext is not None:
            dom = Domain("d_" + EXT, "t", list(DOMAINS[EXT]))
            other = [v for v in DOMAINS[EXT] if v != ext][0]
            self.extvar = ExternalVariable(EXT, dom, other)
            self.extvar.value = ext  # the value is changed after creation: the current value must be read
        self.allvars = dict(self.vars)
        if self.extvar is not None:
            self.allvars[EXT] = self.extvar
        self._rels = {}

    def relation(self, cname, scope, k, kind):
        key = (cname, scope, k, kind)
        if key not in self._rels:
            self._rels[key] = self._build(cname, scope, rot_table(scope, k, self.alpha), kind, flip=bool(k % 2))
        return self._rels[key]

    def _build(self, cname, scope, table, kind, flip):
        from pydcop.dcop.relations import NAryFunctionRelation, NAryMatrixRelation, UnaryFunctionRelation, constraint_from_str

        if kind == "matrix":
            order = list(reversed(scope)) if flip else list(scope)  # relation dimensions need not follow the DCOP order

            def nest(prefix, rest):
                if not rest:
                    full = dict(zip(order, prefix))
                    return table[tuple(full[s] for s in scope)]
                return [nest(prefix + [val], rest[1:]) for val in DOMAINS[rest[0]]]

            return NAryMatrixRelation([self.allvars[s] for s in order], nest([], order), name=cname)
        if kind == "expr":
            body = ", ".join(f"{cell!r}: {lit(v)}" for cell, v in table.items())
            key = "(" + ", ".join(scope) + ("," if len(scope) == 1 else "") + ")"
            return constraint_from_str(cname, "{" + body + "}[" + key + "]", list(self.allvars.values()))
        if kind == "func":
            if len(scope) == 1:
                return UnaryFunctionRelation(cname, self.allvars[scope[0]], lambda val, t=table: t[(val,)])

            def f(**kw):
                return table[tuple(kw[s] for s in scope)]

            return NAryFunctionRelation(f, [self.allvars[s] for s in scope], name=cname, f_kwargs=True)
        raise ValueError(kind)

    def dcop(self, cons, kind):
        """Built as the YAML loader does: variables, external variables and constraints set on the DCOP."""
        from pydcop.dcop.dcop import DCOP

        rels = {}
        for i, (scope, k) in enumerate(cons):
            r = self.relation("c%d" % i, tuple(scope), k, kind)
            rels[r.name] = r
        d = DCOP("c13", "min", variables=dict(self.vars), constraints=rels)
        if self.extvar is not None:
            d.external_variables = {EXT: self.extvar}
        return d


REPEAT_CAP = 25


def report(part, key, what, case):
    """part.violation with the texts built on demand. After REPEAT_CAP recorded occurrences of a key in a shard the
    further ones are only counted (simplest-first enumeration: the small cases come first); see finish()."""
    seen = part.__dict__.setdefault("_c13_seen", {})
    n = seen.get(key, 0)
    seen[key] = n + 1
    if n < REPEAT_CAP:
        part.violation(key, what(), case())


def finish(part):
    """add the occurrences that were only counted to one recorded violation of the same key"""
    seen = part.__dict__.pop("_c13_seen", {})
    for key, n in seen.items():
        if n > REPEAT_CAP:
            for v in part.violations:
                if v["key"] == key:
                    v["n"] = v.get("n", 1) + n - REPEAT_CAP
                    break
    return part


def call(f, *a, **kw):
    try:
        return ("ok", f(*a, **kw))
    except Exception as e:  # noqa
        return ("exc", type(e).__name__, str(e)[:100])


# ------------------------------------------------------------------ oracle on one call

def diagnose_solution_cost(con, var, infinity, hard, soft, bad_hard, bad_soft):
    """Signature of a wrong (hard, soft): the first wrong accounting rule that explains the returned pair, otherwise
    which number is wrong and which kind of term equals infinity."""
    def acc(hard_terms, soft_terms):
        return sum(1 for t in hard_terms), sum(soft_terms)

    terms = con + var
    rules = [
        ("constraint-terms-above-infinity-counted-hard",
         acc([t for t in con if t >= infinity] + [t for t in var if t == infinity], [t for t in con if t < infinity] + [t for t in var if t != infinity])),
        ("variable-costs-above-infinity-counted-hard",
         acc([t for t in var if t >= infinity] + [t for t in con if t == infinity], [t for t in var if t < infinity] + [t for t in con if t != infinity])),
        ("terms-above-infinity-counted-hard", acc([t for t in terms if t >= infinity], [t for t in terms if t < infinity])),
        ("variable-cost-infinity-summed", acc([t for t in con if t == infinity], [t for t in con if t != infinity] + var)),
        ("constraint-infinity-summed", acc([t for t in var if t == infinity], [t for t in var if t != infinity] + con)),
        ("infinity-terms-summed", (0, sum(terms))),
        ("variable-costs-ignored", acc([t for t in con if t == infinity], [t for t in con if t != infinity])),
        ("constraints-ignored", acc([t for t in var if t == infinity], [t for t in var if t != infinity])),
        ("hard-and-soft-swapped", (sum(t for t in terms if t != infinity), sum(1 for t in terms if t == infinity))),
    ]
    for name, (h, s) in rules:
        if close(hard, h) and close(soft, s):
            return name
    which = "+".join(w for w, b in (("hard", bad_hard), ("soft", bad_soft)) if b)
    where = "+".join(w for w, b in (("con", infinity in con), ("var", infinity in var)) if b) or "none"
    return f"{which}-wrong|infinity_in={where}"


def judge_complete(model, kind, entry, assignment, infinity, got, part):
    """`got` = outcome of solution_cost on a complete assignment (`assignment` includes the external value for
    entry == 'function')."""
    full = model.full(assignment) if entry == "method" else assignment
    con, var = model.terms(full)
    terms = con + var
    exp = (sum(1 for t in terms if t == infinity), sum(t for t in terms if t != infinity))

    def case():
        return model.case(kind, call=entry, infinity=enc(infinity), assignment=assignment)

    def head():
        return f"{model.describe()} [{kind} relations]: solution_cost({assignment}, infinity={infinity}) via {entry}"

    if got[0] == "exc":
        report(part, f"solution_cost|{entry}|complete-raises-{got[1]}|ext={int(model.ext is not None)}",
               lambda: f"{head()} raised {got[1]}({got[2]}); expected {exp}", case)
        return ("raised", got[1])
    try:
        hard, soft = got[1]
    except (TypeError, ValueError):
        report(part, f"solution_cost|{entry}|not-two-numbers", lambda: f"{head()} returned {got[1]!r}; expected two numbers {exp}", case)
        return ("shape",)
    bad_hard = not close(hard, exp[0])
    bad_soft = not close(soft, exp[1])
    if bad_hard or bad_soft:
        report(part, "solution_cost|" + diagnose_solution_cost(con, var, infinity, hard, soft, bad_hard, bad_soft),
               lambda: f"{head()} returned {(hard, soft)}; expected {exp} (constraint terms {con}, variable-cost terms {var})", case)
    try:
        return (int(hard), enc(float(soft)))
    except (TypeError, ValueError, OverflowError):
        return (repr(hard), repr(soft))


def judge_incomplete(model, kind, entry, assignment, infinity, got, part):
    def case():
        return model.case(kind, call=entry, infinity=enc(infinity), assignment=assignment)

    def head():
        return (f"{model.describe()} [{kind} relations]: solution_cost({assignment}, infinity={infinity}) via {entry}, "
                "an incomplete assignment,")

    if got[0] == "ok":
        report(part, f"solution_cost|{entry}|incomplete-accepted", lambda: f"{head()} returned {got[1]!r}; expected ValueError", case)
        return ("accepted",)
    if got[1] != "ValueError":
        report(part, f"solution_cost|{entry}|incomplete-raises-{got[1]}",
               lambda: f"{head()} raised {got[1]}({got[2]}); expected ValueError", case)
    return ("rejected", got[1])


def judge_assignment_cost(model, kind, assignment, kwargs, consider, shadow, got, part):
    full = dict(kwargs)
    full.update(assignment)  # a value in `assignment` wins: kwargs is only used when the value is missing
    exp = model.assignment_cost(full, consider)

    def case():
        return model.case(kind, call="assignment_cost", assignment=assignment, kwargs=kwargs, consider=consider)

    def head():
        return (f"{model.describe()} [{kind} relations]: assignment_cost({assignment}, all constraints, "
                f"consider_variable_cost={consider}{''.join(', %s=%r' % kv for kv in kwargs.items())})")

    flags = f"kwargs={int(bool(kwargs))}|varcost={int(consider)}|shadow={int(shadow)}"
    if got[0] == "exc":
        report(part, f"assignment_cost|raises-{got[1]}|{flags}", lambda: f"{head()} raised {got[1]}({got[2]}); expected {exp}", case)
        return ("raised", got[1])
    if not close(got[1], exp):
        con = model.assignment_cost(full, False)
        per_constraint = sum(model.var_cost(v, full[v]) for _, scope, _ in model.cons for v in scope)
        every_var = sum(model.var_cost(v, full[v]) for v in model.all)
        if consider and close(got[1], con):
            why = "variable-costs-ignored"
        elif consider and close(got[1], con + per_constraint):
            why = "variable-cost-counted-once-per-constraint"
        elif not consider and (close(got[1], con + every_var) or close(got[1], exp + (model.assignment_cost(full, True) - con))):
            why = "variable-costs-added-unrequested"
        else:
            why = "other"
        report(part, f"assignment_cost|value|{why}" + (f"|{flags}" if why == "other" else ""), lambda: f"{head()} returned {got[1]!r}; expected {exp}", case)
    try:
        return (enc(float(got[1])),)
    except (TypeError, ValueError):
        return (repr(got[1]),)


# ------------------------------------------------------------------ everything asked about one DCOP

def kwargs_splits(names, few):
    """which variables are handed over as keyword arguments instead of in the assignment dict"""
    if few:
        out = [()] + [(n,) for n in names]
        if len(names) > 1:
            out.append(tuple(names))
        return out
    return [c for r in range(len(names) + 1) for c in itertools.combinations(names, r)]


def examine(model, world, kind, part, few_splits):
    from pydcop.dcop import dcop as dcop_module
    from pydcop.dcop.relations import assignment_cost

    d = world.dcop(model.cons_param, kind)
    part.count("dcops")
    rels = list(d.constraints.values())
    allvars = list(world.allvars.values())
    has_ext = model.ext is not None
    sampled = False

    # 1. complete assignments, both infinities, method and module-level function
    for assignment in assignments(model.names, partial=False):
        full = model.full(assignment)
        con, var = model.terms(full)
        terms = con + var
        for infinity in INFINITIES:
            got = call(d.solution_cost, dict(assignment), infinity)
            o1 = judge_complete(model, kind, "method", assignment, infinity, got, part)
            got2 = call(dcop_module.solution_cost, rels, allvars, dict(full), infinity)
            o2 = judge_complete(model, kind, "function", full, infinity, got2, part)
            part.count("evaluations", 2)
            part.count("complete_calls", 2)
            part.outcome(("sc", o1))
            if o2 != o1:
                part.outcome(("sc", o2))
            # non-trivial: both counters are exercised (a term equal to infinity and a non-zero other term)
            if infinity in terms and any(t != infinity and t != 0 for t in terms):
                part.nontriv(("sc", sorted(con), sorted(var), enc(infinity), has_ext))
                if not sampled and len(model.cons) >= 2 and part.counters.get("dcops", 0) % 7 == 0:
                    sampled = True
                    part.sample({"dcop": model.describe(), "relations": kind, "assignment": assignment,
                                 "infinity": enc(infinity), "returned": [repr(x) for x in (got[1] if got[0] == "ok" else got)],
                                 "reference": [enc(x) for x in model.solution_cost(full, infinity)]})

    # 2. every assignment of every strict subset is rejected with ValueError
    for assignment in assignments(model.names, partial=True):
        if len(assignment) < len(model.names):
            got = call(d.solution_cost, dict(assignment), 10000)
            o = judge_incomplete(model, kind, "method", assignment, 10000, got, part)
            part.count("evaluations")
            part.count("incomplete_calls")
            part.outcome(("inc", o))
            if assignment:
                part.nontriv(("inc", "method", sorted(assignment), has_ext, len(model.cons), kind))
        for with_ext in ([True, False] if has_ext else [False]):
            a = model.full(assignment) if with_ext else assignment
            if len(a) == len(model.all):
                continue
            got = call(dcop_module.solution_cost, rels, allvars, dict(a), INF)
            o = judge_incomplete(model, kind, "function", a, INF, got, part)
            part.count("evaluations")
            part.count("incomplete_calls")
            part.outcome(("inc", o))
            if a:
                part.nontriv(("inc", "function", sorted(a), has_ext, len(model.cons), kind))

    # 3. assignment_cost over all the constraints, values given in the dict and/or as keyword arguments
    if not model.cons:
        return
    in_scope = [v for v in model.all if any(v in scope for _, scope, _ in model.cons)]
    splits = kwargs_splits(model.all, few_splits)
    for assignment in assignments(model.names, partial=False):
        full = model.full(assignment)
        costs_in_scope = sorted(model.var_cost(v, full[v]) for v in in_scope)
        con = sorted(model.terms(full)[0])
        for consider in (False, True):
            for moved in splits:
                a = {k: v for k, v in full.items() if k not in moved}
                kw = {k: full[k] for k in moved}
                got = call(assignment_cost, dict(a), rels, consider, **kw)
                o = judge_assignment_cost(model, kind, a, kw, consider, False, got, part)
                part.count("evaluations")
                part.count("assignment_cost_calls")
                part.outcome(("ac", o))
                if consider and any(c != 0 for c in costs_in_scope):
                    part.nontriv(("ac", con, costs_in_scope, len(moved)))
            # a keyword value for a variable that the assignment already gives is not used
            v0 = in_scope[0]
            kw = {v0: [x for x in DOMAINS[v0] if x != full[v0]][0]}
            got = call(assignment_cost, dict(full), rels, consider, **kw)
            o = judge_assignment_cost(model, kind, full, kw, consider, True, got, part)
            part.count("evaluations")
            part.count("assignment_cost_calls")
            part.outcome(("ac", o))


# ------------------------------------------------------------------ the enumerated spaces

A5 = [0, 1, 10000, -1, INF]
A7 = [0, 1, 10000, -1, INF, 2.5, 2 ** 40]
MIXED = [("expr", 4), ("func", 1), ("dict", 3)]
# (relation kind, variable-cost configuration): none / every variable a dict with an `infinity` entry / mixed kinds
COMBOS_QUICK = [("matrix", "none"), ("matrix", "dict"), ("matrix", "mixed"), ("expr", "mixed")]
COMBOS_THOROUGH = [(k, c) for k in ("matrix", "expr", "func") for c in ("none", "dict", "mixed")]

# S1 bands: alphabet, largest scope, largest number of constraints as a function of the number of variables (incl. the
# external one), (relation kind, cost configuration) pairs, few/all keyword splits for assignment_cost
BANDS = {
    "quick": [
        {"alpha": A5, "max_arity": 2, "max_m": {1: 3, 2: 3, 3: 3, 4: 2}, "combos": COMBOS_QUICK, "few": True},
    ],
    "thorough": [
        {"alpha": A5, "max_arity": 2, "max_m": {1: 3, 2: 3, 3: 3, 4: 3}, "combos": COMBOS_THOROUGH, "few": True},
        {"alpha": A7, "max_arity": 3, "max_m": {1: 2, 2: 2, 3: 2, 4: 2}, "combos": COMBOS_THOROUGH, "few": False},
    ],
}
# S2: every combination of per-variable cost definitions x three small constraint sets
S2 = {"quick": {"alpha": A5, "few": True}, "thorough": {"alpha": A7, "few": False}}


def cost_config(name, n):
    return {"none": [("none", 0)] * n, "dict": [("dict", 2)] * n, "mixed": MIXED[:n]}[name]


def cost_options(alpha):
    return [("none", 0)] + [(kind, j) for kind in COST_KINDS for j in range(len(alpha))]


def small_constraint_sets(n, ext):
    """S2: no constraint / one over the first variables / two, the second touching the last (and the external) variable."""
    names = VAR_NAMES[:n]
    first = tuple(names[:2])
    last = (names[-1], EXT) if ext is not None else (names[-1],)
    return [(), ((first, 1),), ((first, 0), (last, 2))]


# ------------------------------------------------------------------ S3: histories on ONE DCOP object
# The same DCOP object is evaluated, changed through its public API, and evaluated again (a stale internal list or cache only
# shows on the second evaluation). Reference: the accounting recomputed from the model of the CURRENT definition.
H_DOM = [0, 1]
H_COSTS = [None, {1: 3}, {0: 5, 1: 10000}]  # no costs / partial dict / dict with an infinity entry
H_TABLES = [[[0, 1], [2, 3]], [[4, 0], [0, 10000]]]


H_EXT_TABLE = [[0, 7], [3, 0]]  # ce(x, e): read with the CURRENT value of the external variable e


def h_ops():
    ops = [("ext", 0), ("ext", 1)]
    ops += [("var", n, ci) for n in ("x", "y", "z") for ci in range(len(H_COSTS))]
    ops += [("con", "c0", ("x", "y"), t) for t in range(2)] + [("con", "c1", ("y", "z"), t) for t in range(2)]
    ops += [("con", "c0", ("x", "z"), 1), ("swap", "z", "w", 1), ("swap", "w", "z", 2), ("delcon", "c1")]
    return ops


class HistoryModel:
    def __init__(self):
        self.vars = {"x": 0, "y": 1, "z": 2}  # name -> index in H_COSTS
        self.cons = {"c0": (("x", "y"), 0)}
        self.ext = 0

    def legal(self, op):
        if op[0] == "ext":
            return op[1] != self.ext
        if op[0] == "var":
            return op[1] in self.vars and self.vars[op[1]] != op[2]
        if op[0] == "con":
            return all(v in self.vars for v in op[2]) and self.cons.get(op[1]) != (op[2], op[3])
        if op[0] == "swap":
            return op[1] in self.vars and op[2] not in self.vars and not any(op[1] in sc for sc, _ in self.cons.values())
        return op[1] in self.cons

    def apply(self, op):
        if op[0] == "ext":
            self.ext = op[1]
        elif op[0] == "var":
            self.vars[op[1]] = op[2]
        elif op[0] == "con":
            self.cons[op[1]] = (op[2], op[3])
        elif op[0] == "swap":
            del self.vars[op[1]]
            self.vars[op[2]] = op[3]
        else:
            del self.cons[op[1]]

    def solution_cost(self, a, infinity):
        terms = [H_TABLES[t][a[sc[0]]][a[sc[1]]] for sc, t in self.cons.values()]
        terms.append(H_EXT_TABLE[a["x"]][self.ext])
        terms += [(H_COSTS[ci] or {}).get(a[n], 0) for n, ci in self.vars.items()]
        return sum(1 for t in terms if t == infinity), sum(t for t in terms if t != infinity)


def h_build():
    from pydcop.dcop.dcop import DCOP
    from pydcop.dcop.objects import Domain

    d = DCOP("c13h", "min")
    dom = Domain("d", "t", list(H_DOM))
    objs = {}
    for n, ci in (("x", 0), ("y", 1), ("z", 2)):
        objs[n] = h_var(n, dom, ci)
        d.add_variable(objs[n])
    h_con(d, objs, "c0", ("x", "y"), 0)
    # the external variable and its constraint, set on the DCOP as the YAML loader does
    from pydcop.dcop.objects import ExternalVariable
    from pydcop.dcop.relations import NAryMatrixRelation

    objs["e"] = ExternalVariable("e", dom, 0)
    d.external_variables = {"e": objs["e"]}
    d.constraints["ce"] = NAryMatrixRelation([objs["x"], objs["e"]], H_EXT_TABLE, name="ce")
    objs["__asg__"] = {}  # the SAME assignment dict objects are handed to solution_cost again after every change
    return d, dom, objs


def h_var(name, dom, ci):
    from pydcop.dcop.objects import Variable, VariableWithCostDict

    return Variable(name, dom) if H_COSTS[ci] is None else VariableWithCostDict(name, dom, dict(H_COSTS[ci]))


def h_con(d, objs, cname, scope, t):
    from pydcop.dcop.relations import NAryMatrixRelation

    d.add_constraint(NAryMatrixRelation([objs[v] for v in scope], H_TABLES[t], name=cname))


def h_apply(d, dom, objs, op):
    if op[0] == "ext":
        objs["e"].value = op[1]
    elif op[0] == "var":
        objs[op[1]] = h_var(op[1], dom, op[2])
        d.add_variable(objs[op[1]])
    elif op[0] == "con":
        h_con(d, objs, op[1], op[2], op[3])
    elif op[0] == "swap":
        del d.variables[op[1]]
        del objs[op[1]]
        objs[op[2]] = h_var(op[2], dom, op[3])
        d.add_variable(objs[op[2]])
    else:
        del d.constraints[op[1]]


def h_eval(d, model, hist, part, objs=None):
    names = sorted(model.vars)
    cache = objs["__asg__"] if objs is not None else {}
    for vals in itertools.product(H_DOM, repeat=len(names)):
        a = dict(zip(names, vals))
        exp = model.solution_cost(a, 10000)
        # the caller keeps its assignment dict and passes the very same object again after the DCOP has changed
        mine = cache.setdefault(tuple(sorted(a.items())), dict(a))
        try:
            got = tuple(d.solution_cost(mine, 10000))
        except Exception as e:  # noqa
            got = ("raised", type(e).__name__)
        part.count("evaluations")
        part.count("S3_evaluations")
        if len(hist) > 0:
            part.count("nontrivial_cases")
        if tuple(got) != tuple(exp):
            step = "after-" + hist[-1][0] if hist else "initial"
            report(part, f"solution_cost|stale-after-change|{step}", lambda: f"one DCOP object, history {hist} (evaluated on every assignment after each step): solution_cost({a}, 10000) = {got}, the current definition {model.vars} / {model.cons} gives {exp}", lambda: {"kind": "history", "history": [list(o) for o in hist], "assignment": a})
            return False
    return True


def history_shard(depth, sub, nsub):
    """Every sequence of <= depth legal changes; the DCOP is rebuilt and the prefix replayed (with its evaluations) for each."""
    part = Part()
    ops = h_ops()
    n = 0

    def rec(hist, model):
        nonlocal n
        if len(hist) == depth:
            return
        for op in ops:
            if not model.legal(op):
                continue
            h2 = hist + [op]
            if len(h2) == 1:
                n += 1
                if n % nsub != sub:
                    continue
            m2 = HistoryModel()
            d, dom, objs = h_build()
            ok = h_eval(d, m2, [], part, objs)
            for i, o in enumerate(h2):
                if not ok:
                    break
                try:
                    h_apply(d, dom, objs, o)
                except Exception as e:  # noqa
                    report(part, f"history|change-raised|{type(e).__name__}|{o[0]}", lambda e=e: f"history {h2[:i + 1]}: the change raised {e!r}", lambda: {"kind": "history", "history": [list(x) for x in h2[:i + 1]]})
                    ok = False
                    break
                m2.apply(o)
                ok = h_eval(d, m2, h2[:i + 1], part, objs)
            part.count("S3_histories")
            part.nontriv(("S3", tuple(map(str, h2))))
            part.outcome(("S3", tuple(sorted(m2.vars.items())), tuple(sorted((k, str(v)) for k, v in m2.cons.items()))))
            if ok:
                rec(h2, m2)

    rec([], HistoryModel())
    return part


def jobs_for(tier):
    jobs = []
    for sub in range(16):
        jobs.append(("S3", tier, 0, 2 if tier == "quick" else 3, None, 0, sub, 16))
    for b, band in enumerate(BANDS[tier]):
        for n in (1, 2, 3):
            for ext in (None, 0, 1):
                names = all_names(n, ext)
                total = count_constraint_sets(names, band["max_arity"], band["max_m"][len(names)], band["alpha"])
                nsub = 1 if total < 400 else (4 if total < 4000 else (16 if total < 20000 else 64))
                for combo in range(len(band["combos"])):
                    for sub in range(nsub):
                        jobs.append(("S1", tier, b, n, ext, combo, sub, nsub))
    for n in (1, 2, 3):
        for ext in (None, 1):
            for cs_id in range(3):
                nsub = 1 if n < 3 else 16
                for sub in range(nsub):
                    jobs.append(("S2", tier, 0, n, ext, cs_id, sub, nsub))
    return jobs


def shard(job):
    space, tier, b, n, ext, sel, sub, nsub = job
    if space == "S3":
        return finish(history_shard(n, sub, nsub))
    part = Part()
    if space == "S1":
        band = BANDS[tier][b]
        alpha = band["alpha"]
        kind, cost_name = band["combos"][sel]
        vcs = cost_config(cost_name, n)
        names = all_names(n, ext)
        world = World(n, ext, vcs, alpha)
        for i, cons in enumerate(constraint_sets(names, band["max_arity"], band["max_m"][len(names)], alpha)):
            if i % nsub != sub:
                continue
            examine(Model(n, ext, vcs, cons, alpha), world, kind, part, band["few"])
            part.count("S1_dcops")
    else:
        alpha = S2[tier]["alpha"]
        cons = small_constraint_sets(n, ext)[sel]
        for i, vcs in enumerate(itertools.product(cost_options(alpha), repeat=n)):
            if i % nsub != sub:
                continue
            world = World(n, ext, list(vcs), alpha)
            examine(Model(n, ext, list(vcs), cons, alpha), world, "matrix", part, S2[tier]["few"])
            part.count("S2_dcops")
    return finish(part)


def run(ctx):
    bands = "; ".join(
        f"band {i}: values {[enc(a) for a in b['alpha']]}, scopes of arity <= {b['max_arity']}, at most "
        f"{b['max_m']} constraints for {{number of variables incl. external: limit}}, (relation kind, cost configuration) in {b['combos']}, "
        f"keyword splits {'none/each single/all' if b['few'] else 'every subset'}"
        for i, b in enumerate(BANDS[ctx.tier]))
    ctx.level = "exploration"
    ctx.rule = (
        f"DCOPs over decision variables {VAR_NAMES} (the first n, n=1..3; domains {DOMAINS}) and external variable {EXT!r} in "
        "{absent, 0, 1} (value changed after creation). S1: every multiset of constraints, a constraint = (scope over all "
        "variables incl. the external one, rotation k of the value alphabet over the cells of the scope: cell i holds "
        f"alphabet[(i+k) mod len]); {bands}; cost configurations: none / every variable a partial dict with a 10000 entry / "
        f"{MIXED} (kind, rotation over the domain). S2: every combination of per-variable cost definitions (none, or "
        f"{COST_KINDS} x every rotation of {[enc(a) for a in S2[ctx.tier]['alpha']]} over the domain; dict leaves zero entries out) x 3 "
        "small constraint sets x external in {absent, 1}. On every DCOP: solution_cost (method; module function with the "
        f"external value in the assignment) on every complete assignment x infinity in {[enc(i) for i in INFINITIES]}; on every "
        "assignment of every strict subset of the variables (must raise ValueError); assignment_cost over all constraints on "
        "every complete assignment x consider_variable_cost x keyword splits (+ one shadowed keyword). Non-trivial = a term "
        "S3 (histories): ONE DCOP object (x, y, z over {0,1}, constraint c0) is evaluated on every assignment, then changed through its public API "
        "- the value of an external variable changed, a variable redefined under the same name with other costs, a constraint replaced under the same name (other table or scope) or added or "
        "deleted, a variable removed and another added - and evaluated again after every step with the very same assignment dict objects: every sequence of <= 2 (thorough 3) legal changes, "
        "against the accounting of the current definition. "
        "equals infinity and another non-zero term is summed (solution_cost), a non-empty sub-assignment (rejection), a non-zero "
        "variable cost is requested (assignment_cost); non-trivial tokens are term profiles, not cases."
    )
    ctx.assumptions = [
        "DCOPs are assembled as the YAML loader does (variables, external_variables and constraints set on the DCOP object); "
        "DCOP.add_constraint with an external variable in scope is not used (it registers the external variable as a decision variable too).",
        "Relation evaluation itself (matrix / expression / function lookup) is C11/C12's subject; here the accounting of the returned terms is judged.",
        "infinity is 10000 or float('inf'); no term is NaN or -inf; assignments have no foreign keys and no None values.",
        "assignment_cost: 'variable costs' = cost of every variable in the scope of the given constraints, once (the function gets no other variable objects).",
    ]
    ctx.pmap(shard, ctx.rotate(jobs_for(ctx.tier)))


def replay(case):
    if case.get("kind") == "history":
        part = Part()
        hist = [tuple(tuple(x) if isinstance(x, list) else x for x in o) for o in case["history"]]
        m = HistoryModel()
        d, dom, objs = h_build()
        ok = h_eval(d, m, [], part, objs)
        for i, o in enumerate(hist):
            h_apply(d, dom, objs, o)
            m.apply(o)
            ok = h_eval(d, m, hist[:i + 1], part, objs) and ok
            print("after", o, "ok" if ok else "MISMATCH")
        for v in part.violations:
            print(v["key"], "::", v["what"])
        return bool(part.violations)
    alpha = [dec(a) for a in case["alpha"]]
    vcs = [tuple(v) for v in case["vcs"]]
    cons = tuple((tuple(s), k) for s, k in case["cons"])
    model = Model(case["n"], case["ext"], vcs, cons, alpha)
    world = World(case["n"], case["ext"], vcs, alpha)
    kind = case["kind"]
    d = world.dcop(cons, kind)
    rels = list(d.constraints.values())
    part = Part()
    print(model.describe(), f"[{kind} relations]")
    assignment = dict(case["assignment"])
    if case["call"] == "assignment_cost":
        from pydcop.dcop.relations import assignment_cost

        kw = dict(case["kwargs"])
        got = call(assignment_cost, dict(assignment), rels, case["consider"], **kw)
        print(f"assignment_cost({assignment}, constraints, {case['consider']}, **{kw}) ->", got)
        shadow = any(k in assignment for k in kw)
        judge_assignment_cost(model, kind, assignment, kw, case["consider"], shadow, got, part)
    else:
        from pydcop.dcop import dcop as dcop_module

        infinity = dec(case["infinity"])
        if case["call"] == "method":
            got = call(d.solution_cost, dict(assignment), infinity)
            complete = len(assignment) == len(model.names)
        else:
            got = call(dcop_module.solution_cost, rels, list(world.allvars.values()), dict(assignment), infinity)
            complete = len(assignment) == len(model.all)
        print(f"solution_cost({assignment}, {infinity}) via {case['call']} ->", got)
        if complete:
            judge_complete(model, kind, case["call"], assignment, infinity, got, part)
        else:
            judge_incomplete(model, kind, case["call"], assignment, infinity, got, part)
    for v in part.violations:
        print(v["key"], "::", v["what"])
    return bool(part.violations)
