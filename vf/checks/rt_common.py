"""Shared THRX harness for the runtime properties C21 / C22 (/ C27): the real Orchestrator + OrchestratedAgents in
thread mode under the cooperative scheduler, exactly as `pydcop solve` drives them
(run_local_thread_dcop -> deploy_computations -> run(timeout))."""
import contextlib
import io
import os
import tempfile

from vf.core import gen, thrx
from vf.core.runner import Part

INFINITY = 10000


class Monitor:
    """C21 monitor: which controlled thread executes each computation callback, and overlap per agent."""

    def __init__(self):
        self.host = {}  # id(computation) -> agent name
        self.names = {}
        self.active = {}  # agent -> list of (thread, what)
        self.calls = {}
        self.bad = []
        self.undo = []

    def _enter(self, agent, what):
        t = thrx.cur().current.name if thrx.cur() is not None else "?"
        self.calls[what.split(":")[0]] = self.calls.get(what.split(":")[0], 0) + 1
        if agent is not None:
            if t != "thread_" + agent:
                self.bad.append(("wrong-thread", agent, what, t))
            stack = self.active.setdefault(agent, [])
            if any(th != t for th, _ in stack):
                self.bad.append(("concurrent", agent, what, t, list(stack)))
            stack.append((t, what))
        return agent

    def _exit(self, agent):
        if agent is not None:
            self.active[agent].pop()

    def wrap_method(self, cls, name, kind):
        orig = getattr(cls, name)
        mon = self

        def wrapper(comp, *a, **k):
            agent = mon.host.get(id(comp))
            mon._enter(agent, f"{kind}:{getattr(comp, 'name', '?')}")
            try:
                return orig(comp, *a, **k)
            finally:
                mon._exit(agent)

        wrapper.__name__ = name
        setattr(cls, name, wrapper)
        self.undo.append((cls, name, orig))

    def install(self):
        from pydcop.infrastructure import agents as agents_mod
        from pydcop.infrastructure.computations import MessagePassingComputation
        from pydcop.infrastructure.discovery import Discovery

        mon = self
        # the base class and every subclass that overrides one of the entry points (e.g. the management computations
        # define their own on_message). A subclass override usually calls super(): nested records on the same thread are fine.
        import pydcop.infrastructure.orchestrator  # noqa: make sure the subclasses exist
        import pydcop.infrastructure.orchestratedagents  # noqa
        import pydcop.replication.dist_ucs_hostingcosts  # noqa

        def subclasses(c):
            out = [c]
            for sc in c.__subclasses__():
                out.extend(subclasses(sc))
            return out

        seen = set()
        for cls in subclasses(MessagePassingComputation):
            if cls in seen:
                continue
            seen.add(cls)
            for name in ("start", "on_message", "pause"):
                if name in vars(cls):
                    self.wrap_method(cls, name, name)
        Agent = agents_mod.Agent
        orig_add = Agent.add_computation

        def add_computation(agent, computation, comp_name=None, publish=True):
            mon.host[id(computation)] = agent.name
            mon.keep = getattr(mon, "keep", [])
            mon.keep.append(computation)
            return orig_add(agent, computation, comp_name, publish)

        Agent.add_computation = add_computation
        self.undo.append((Agent, "add_computation", orig_add))
        for cls in {agents_mod.Agent, agents_mod.ResilientAgent}:
            if "add_computation" in vars(cls) and cls is not Agent:
                o = vars(cls)["add_computation"]

                def add2(agent, computation, *a, _o=o, **k):
                    mon.host[id(computation)] = agent.name
                    mon.keep = getattr(mon, "keep", [])
                    mon.keep.append(computation)
                    return _o(agent, computation, *a, **k)

                setattr(cls, "add_computation", add2)
                self.undo.append((cls, "add_computation", o))
        orig_spa = Agent.set_periodic_action

        def set_periodic_action(agent, period, cb):
            def wrapped_cb():
                mon._enter(agent.name, "periodic:" + getattr(cb, "__qualname__", "cb"))
                try:
                    return cb()
                finally:
                    mon._exit(agent.name)

            wrapped_cb.__wrapped__ = cb
            return orig_spa(agent, period, wrapped_cb)

        Agent.set_periodic_action = set_periodic_action
        self.undo.append((Agent, "set_periodic_action", orig_spa))
        # discovery callbacks registered through Discovery.subscribe_*
        for name in ("subscribe_agent", "subscribe_computation", "subscribe_replica"):
            orig = getattr(Discovery, name)

            def sub(disc, target, cb=None, *a, _orig=orig, _name=name, **k):
                if cb is not None:
                    agent = disc.own_agent
                    inner = cb

                    def wrapped(*ca, **ck):
                        mon._enter(agent, "discovery_cb:" + _name)
                        try:
                            return inner(*ca, **ck)
                        finally:
                            mon._exit(agent)

                    mon.cbmap = getattr(mon, "cbmap", {})
                    mon.cbmap[id(inner)] = wrapped
                    cb = wrapped
                return _orig(disc, target, cb, *a, **k)

            setattr(Discovery, name, sub)
            self.undo.append((Discovery, name, orig))

        orig_all = Discovery.subscribe_all_agents

        def sub_all(disc, cb=None, *a, **k):
            if cb is not None:
                agent = disc.own_agent
                inner = cb

                def wrapped(*ca, **ck):
                    mon._enter(agent, "discovery_cb:subscribe_all_agents")
                    try:
                        return inner(*ca, **ck)
                    finally:
                        mon._exit(agent)

                cb = wrapped
            return orig_all(disc, cb, *a, **k)

        Discovery.subscribe_all_agents = sub_all
        self.undo.append((Discovery, "subscribe_all_agents", orig_all))

        for name in ("unsubscribe_agent", "unsubscribe_computation", "unsubscribe_replica"):
            orig = getattr(Discovery, name)

            def unsub(disc, target, cb=None, *a, _orig=orig, **k):
                if cb is not None:
                    cb = getattr(mon, "cbmap", {}).get(id(cb), cb)
                return _orig(disc, target, cb, *a, **k)

            setattr(Discovery, name, unsub)
            self.undo.append((Discovery, name, orig))

    def uninstall(self):
        for cls, name, orig in reversed(self.undo):
            setattr(cls, name, orig)
        self.undo = []


def make_dcop(spec, agent_names, capacity=1000, hosting=None):
    """hosting: optional {agent: {computation: hosting cost}} (default hosting cost 0)."""
    from pydcop.dcop.objects import AgentDef

    dcop, variables = gen.build_dcop(spec)
    dcop.add_agents([AgentDef(a, capacity=capacity, hosting_costs=dict((hosting or {}).get(a, {}))) for a in agent_names])
    return dcop


def solve_scenario(job, monitor=None):
    """Returns scenario(sched) running the orchestrated solve of job = {spec, agents, mapping|method, algo, timeout}."""

    def scenario(sched):
        from pydcop.algorithms import AlgorithmDef, load_algorithm_module
        from pydcop.distribution.objects import Distribution
        from pydcop.infrastructure.run import run_local_thread_dcop
        import importlib

        spec = job["spec"]
        dist_error = None
        # own the algorithms' randomness (first answer of every draw): executions must be reproducible
        from vf.core import choice as choice_mod
        import pydcop.dcop.relations as _rel
        import pydcop.infrastructure.computations as _comp
        import pydcop.infrastructure.agents as _agents

        for mod in (load_algorithm_module(job["algo"]), _rel, _comp, _agents):
            choice_mod.install(mod)
        choice_mod.set_controller(choice_mod.Controller())
        dcop = make_dcop(spec, job["agents"])
        algo_module = load_algorithm_module(job["algo"])
        algo = AlgorithmDef.build_with_default_param(job["algo"], dict(job.get("params", {})), mode=spec.get("mode", "min"))
        cg = importlib.import_module("pydcop.computations_graph." + algo_module.GRAPH_TYPE).build_computation_graph(dcop)
        if "mapping" in job:
            dist = Distribution({a: list(cs) for a, cs in job["mapping"].items()})
        else:
            dm = importlib.import_module("pydcop.distribution." + job["method"])
            # the heuristics draw random numbers: own them (first answer of every draw) so that executions are reproducible
            from vf.core import choice as choice_mod
            choice_mod.install(dm)
            choice_mod.set_controller(choice_mod.Controller())
            try:
                dist = dm.distribute(cg, dcop.agents.values(), computation_memory=algo_module.computation_memory,
                                     communication_load=algo_module.communication_load)
            except NotImplementedError as e:
                # the algorithm module does not implement its footprint functions: continue with unit footprints so that
                # the method's placement logic is still exercised, and report the fact separately
                dist_error = ("NotImplementedError", str(e)[:120])
                dist = dm.distribute(cg, dcop.agents.values(), computation_memory=lambda n: 1,
                                     communication_load=lambda n, t: 1)
        if job.get("replication"):
            # resilient run: replication computations subscribe to all agent events (discovery callbacks on every agent)
            import pydcop.replication.dist_ucs_hostingcosts as _ucs

            choice_mod.install(_ucs)
            orch = run_local_thread_dcop(algo, cg, dist, dcop, INFINITY, replication="dist_ucs_hostingcosts")
        else:
            orch = run_local_thread_dcop(algo, cg, dist, dcop, INFINITY)
        try:
            orch.deploy_computations()
            if job.get("replication"):
                orch.start_replication(job["replication"])
                orch.wait_ready()
            orch.run(timeout=job.get("timeout", 10))
            status = orch.status
            metrics = orch.end_metrics()
        finally:
            pass
        return {"status": status, "assignment": dict(metrics.get("assignment", {})), "cost": metrics.get("cost"),
                "violation": metrics.get("violation"), "mstatus": metrics.get("status"), "clock": sched.clock,
                "dist": {a: sorted(dist.computations_hosted(a)) for a in dist.agents}, "dist_error": dist_error}

    return scenario


@contextlib.contextmanager
def sandbox():
    """chdir to a temp dir (the orchestrator may dump yaml files) and swallow stdout."""
    old = os.getcwd()
    with tempfile.TemporaryDirectory(prefix="vf_rt_") as d:
        os.chdir(d)
        try:
            with contextlib.redirect_stdout(io.StringIO()):
                yield d
        finally:
            os.chdir(old)


def ref_accounting(spec, assignment, infinity=INFINITY):
    """(violation count, cost): reference = count of terms equal to infinity, sum of the others."""
    hard, soft = 0, 0
    for c in spec["cons"]:
        t = c["table"]
        for n in c["scope"]:
            t = t[spec["vars"][n].index(assignment[n])]
        if t == infinity:
            hard += 1
        else:
            soft += t
    for n, costs in spec.get("costs", {}).items():
        t = costs[spec["vars"][n].index(assignment[n])]
        if t == infinity:
            hard += 1
        else:
            soft += t
    return hard, soft
