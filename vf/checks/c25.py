"""C25 Replica placement terminates and keeps replicas safe (netx).

Real UCSReplication computation per agent (fake Agent shell: name, agent_def, computations() with fixed footprints), real
Discovery per agent and a real Directory, all in ONE process (the class-level state of UCSReplication is shared by the
agents, as in thread mode). After a deterministic set-up (registrations delivered), every agent's replicate(k) and all
replication / discovery messages are explored: ALL FIFO interleavings for the smallest deployments, canonical schedules
beyond. Runs of a deployment are executed back to back in one worker (class-level state is deliberately not reset).
"""
import itertools

from vf.core import gen, netx
from vf.core.runner import Part


class Hosted:
    def __init__(self, name, fp):
        self.name, self.fp = name, fp

    def footprint(self):
        return self.fp


class FakeAgent:
    """What UCSReplication reads from its agent."""

    def __init__(self, name, agent_def, hosted):
        self.name = name
        self.agent_def = agent_def
        self._hosted = hosted

    def computations(self, include_technical=False):
        return list(self._hosted)


class DoneHook:
    def __init__(self, agent):
        self.agent = agent

    def __call__(self, replica_hosts):
        netx.CUR.mon.setdefault("done", {})[self.agent] = {c: sorted(h) for c, h in replica_hosts.items()}

    def __deepcopy__(self, memo):
        return self


def deployment(dep):
    """dep = {agents: {name: {capacity, comps: {c: footprint}, routes?, hosting?}}, edges: [(c, c')], k}"""
    from pydcop.algorithms import AlgorithmDef, ComputationDef
    from pydcop.computations_graph import constraints_hypergraph as chg
    from pydcop.dcop.objects import AgentDef
    from pydcop.infrastructure.discovery import Directory, Discovery
    from pydcop.replication.dist_ucs_hostingcosts import UCSReplication

    comps = sorted(c for a in dep["agents"].values() for c in a["comps"])
    spec = {"vars": {c: [0, 1] for c in comps}, "cons": [{"name": f"k{i}", "scope": list(e), "table": [[0, 1], [1, 0]]} for i, e in enumerate(dep["edges"])], "mode": "min"}
    dcop, _ = gen.build_dcop(spec)
    cg = chg.build_computation_graph(dcop)
    algo = AlgorithmDef.build_with_default_param("dsa", {}, mode="min")
    cdefs = {n.name: ComputationDef(n, algo) for n in cg.nodes}
    world = netx.World()
    netx.CUR = world  # messages posted while the deployment is assembled go to this world
    dd = Discovery("orchestrator", "addr_orchestrator")
    directory = Directory(dd)
    dd.use_directory("orchestrator", "addr_orchestrator")
    world.add(directory.directory_computation, hooks=())
    world.add(dd.discovery_computation, hooks=())
    reps = {}
    for a, ad in dep["agents"].items():
        adef = AgentDef(a, capacity=ad["capacity"], default_route=ad.get("default_route", 1), routes=dict(ad.get("routes", {})),
                        default_hosting_cost=ad.get("default_hosting", 0), hosting_costs=dict(ad.get("hosting", {})))
        d = Discovery(a, "addr_" + a)
        d.use_directory("orchestrator", "addr_orchestrator")
        world.add(d.discovery_computation, hooks=())
        agent = FakeAgent(a, adef, [Hosted(c, fp) for c, fp in ad["comps"].items()])
        rep = UCSReplication(agent, d)  # as build_replication_computation does: the level comes with replicate(k)
        rep.replication_done = DoneHook(a)
        world.add(rep, hooks=())
        reps[a] = rep
    for c in world.comps.values():
        c.start()
        world.started.append(c.name)
    # registrations (what Agent / ResilientAgent do when computations are deployed)
    for a, ad in dep["agents"].items():
        d = reps[a].discovery
        d.register_agent(a, "addr_" + a)
        d.register_computation(reps[a].name, a, "addr_" + a)
        for c, fp in ad["comps"].items():
            d.register_computation(c, a, "addr_" + a)
            reps[a].add_computation(cdefs[c], fp)
            for n in cdefs[c].node.neighbors:
                d.subscribe_computation(n)
    world.mon["shared"] = list(cdefs.values())
    world.mon["dep"] = dep
    world.mon["replicate"] = []
    return world, list(cdefs.values())


class RepSpec(netx.Spec):
    def __init__(self, dep, phase, leave=False):
        self.dep, self.phase, self.leave = dep, phase, leave

    def canon_extra(self, world):
        return (sorted(world.mon.get("done", {}).items()), sorted(world.mon["replicate"]), tuple(world.mon.get("bad", ())), tuple(world.mon.get("left", ())))

    def extra_events(self, world):
        if self.phase != "run" or world.exception is not None:
            return []
        left = world.mon.get("left", [])
        evs = [("replicate", a) for a in sorted(self.dep.get("replicators", self.dep["agents"])) if a not in world.mon["replicate"] and a not in left]
        if self.leave and not left and world.mon["replicate"]:
            # one agent leaves at any moment once a replication has been requested
            evs += [("leave", a) for a in sorted(self.dep["agents"]) if self.leave in (True, a)]
        return evs

    def apply_extra(self, world, event):
        a = event[1]
        if event[0] == "leave":
            # what ResilientAgent._on_stop / Agent._on_stop do; afterwards nothing is delivered to the agent any more
            rep = world.comps["_replication_" + a]
            d = rep.discovery
            world.mon["left"] = [a]
            rep.stop()
            d.unregister_computation(rep.name)
            for c in self.dep["agents"][a]["comps"]:
                d.unregister_computation(c, a)
            d.unregister_agent(a)
            gone = ("_replication_" + a, "_discovery_" + a)
            for key in [k for k in world.chans if k[1] in gone]:
                del world.chans[key]
            for n in gone:
                world.front.pop(n, None)
                del world.comps[n]
            return
        world.mon["replicate"].append(a)
        world.comps["_replication_" + a].replicate(self.dep["k"])

    def check_state(self, world, event, report):
        if world.exception is not None:
            ev, et, msg, where = world.exception
            report(f"C25|raised|{et}|{netx.site(where)}", f"deployment {self.dep['name']}: event {ev} raised {et}: {msg} at {where}")
            return
        if self.phase != "run":
            return
        dep, k = self.dep, self.dep["k"]
        # capacity rule: evaluated on every state from the agents' real tables (not from the memo)
        for a, ad in dep["agents"].items():
            if a in world.mon.get("left", ()):
                continue
            rep = world.comps["_replication_" + a]
            hosted = dict(rep._hosted_replicas)  # comp -> (owner, footprint)
            remaining = ad["capacity"] - sum(ad["comps"].values())
            owners = sorted({o for o, _ in hosted.values()})
            seen = world.mon.setdefault("seen_hosted", {})
            prev = seen.get(a, ())
            new = [c for c in hosted if c not in prev]
            for c in new:
                # at the moment c was accepted: remaining >= footprint(c) + max over owner subsets S of size min(k-1, #owners before)
                before = {x: v for x, v in hosted.items() if x != c and x in prev}
                bowners = sorted({o for o, _ in before.values()})
                m = min(k - 1, len(bowners))
                worst = max((sum(f for o, f in before.values() if o in S) for S in itertools.combinations(bowners, m)), default=0)
                need = hosted[c][1] + worst
                if remaining < need:
                    world.mon.setdefault("bad", []).append((a, c, remaining, need))
                    report("C25|replica-accepted-beyond-safe-capacity", f"deployment {dep['name']}: {a} (remaining capacity {remaining}) accepted a replica of {c} (footprint {hosted[c][1]}) while the worst case for {m} owner(s) among {bowners} already needs {worst}: {need} > {remaining}; holds {hosted}")
            seen[a] = tuple(sorted(hosted))

    def check_end(self, world, report):
        if self.phase != "run" or world.exception is not None:
            return
        dep, k = self.dep, self.dep["k"]
        done = world.mon.get("done", {})
        left = world.mon.get("left", [])
        notdone = [a for a in dep.get("replicators", dep["agents"]) if a not in done and a not in left]
        if notdone:
            pending = {f"{s}->{d}": len(q) for (s, d), q in world.chans.items()}
            tag = "|after-an-agent-left" if left else ""
            report("C25|replication-never-done" + tag, f"deployment {dep['name']}: quiescent but {notdone} never reported replication done (left: {left}); pending {pending}")
            return
        dd = world.comps["_discovery_orchestrator"].discovery
        if left:
            # fault runs: judged on the survivors' final tables (a done report may predate the departure)
            for a, ad in dep["agents"].items():
                if a in left:
                    continue
                rep = world.comps["_replication_" + a]
                for c in ad["comps"]:
                    hosts = sorted(rep._replica_hosts.get(c, ()))
                    if a in hosts or len(hosts) > k or any(h not in dep["agents"] or h in left for h in hosts):
                        report("C25|bad-replica-hosts|after-an-agent-left", f"deployment {dep['name']}: {left} left; replicas of {c} (owner {a}, k={k}) finally on {hosts}")
                        return
                    try:
                        known = set(dd.replica_agents(c))
                    except Exception:  # noqa
                        known = set(dd._replicas_data.get(c, ()))
                    if not set(hosts) <= known:
                        report("C25|replica-not-recorded-in-discovery|after-an-agent-left", f"deployment {dep['name']}: {left} left; replicas of {c} finally on {hosts} but the directory records {sorted(known)}")
                        return
                    holders = sorted(b for b in dep["agents"] if b not in left and c in world.comps["_replication_" + b]._hosted_replicas)
                    if not set(hosts) <= set(holders):
                        report("C25|reported-host-holds-no-replica|after-an-agent-left", f"deployment {dep['name']}: {left} left; replicas of {c} finally on {hosts} but held by {holders}")
                        return
            return
        for a, ad in dep["agents"].items():
            if a not in done:
                continue  # not asked to replicate in this deployment
            for c in ad["comps"]:
                hosts = done[a].get(c, [])
                if a in hosts or len(set(hosts)) != len(hosts) or len(hosts) > k or any(h not in dep["agents"] for h in hosts):
                    report("C25|bad-replica-hosts", f"deployment {dep['name']}: replicas of {c} (owner {a}, k={k}) reported on {hosts}")
                    return
                try:
                    known = set(dd.replica_agents(c))
                except Exception:  # noqa
                    known = set(dd._replicas_data.get(c, ()))
                if not set(hosts) <= known:
                    report("C25|replica-not-recorded-in-discovery", f"deployment {dep['name']}: replicas of {c} reported on {hosts} but the directory records {sorted(known)}")
                    return
                holders = sorted(b for b in dep["agents"] if c in world.comps["_replication_" + b]._hosted_replicas)
                if sorted(hosts) != holders:
                    report("C25|reported-hosts-differ-from-holders", f"deployment {dep['name']}: replicas of {c} reported on {sorted(hosts)} but held by {holders}")
                    return


def deployments(tier):
    q = tier == "quick"
    out = []

    def dep(name, caps, comps, edges, k, routes=None, hosting=None):
        agents = {}
        for i, (a, cap) in enumerate(caps.items()):
            agents[a] = {"capacity": cap, "comps": comps[a]}
            if routes and a in routes:
                agents[a]["routes"] = routes[a]
            if hosting and a in hosting:
                agents[a]["hosting"] = hosting[a]
        out.append({"name": name, "agents": agents, "edges": edges, "k": k})

    line3 = [("c0", "c1"), ("c1", "c2")]
    tri3 = [("c0", "c1"), ("c1", "c2"), ("c0", "c2")]
    one = {"a0": {"c0": 1}, "a1": {"c1": 1}, "a2": {"c2": 1}}
    big = {"a0": {"c0": 3}, "a1": {"c1": 1}, "a2": {"c2": 3}}
    for k in (1, 2):
        dep(f"line3-ample-k{k}", {"a0": 100, "a1": 100, "a2": 100}, one, line3, k)
        dep(f"tri3-ample-k{k}", {"a0": 100, "a1": 100, "a2": 100}, one, tri3, k)
        dep(f"tri3-tight-k{k}", {"a0": 4, "a1": 2, "a2": 4}, big, tri3, k)
        dep(f"tri3-small-k{k}", {"a0": 5, "a1": 5, "a2": 5}, big, tri3, k, routes={"a0": {"a1": 2}, "a1": {"a0": 2}}, hosting={"a1": {"c0": 1}})
    # non-integer route / hosting costs (sums that round differently along a path and in the paths table), replicas 2 hops away
    fr = {"a0": {"a1": 0.1, "a2": 2.0}, "a1": {"a0": 0.1, "a2": 0.4}, "a2": {"a1": 0.4, "a0": 2.0}}
    fh = {"a0": {"c1": 0.2, "c2": 0.7}, "a1": {"c0": 0.2, "c2": 0.2}, "a2": {"c0": 0.7, "c1": 0.2}}
    for k in (2,) if q else (1, 2):
        dep(f"line3-decimal-costs-k{k}", {"a0": 100, "a1": 100, "a2": 100}, one, line3, k, routes=fr, hosting=fh)
    fr2 = {"a0": {"a1": 0.3, "a2": 1.1}, "a1": {"a0": 0.3, "a2": 0.7}, "a2": {"a1": 0.7, "a0": 1.1}}
    fh2 = {"a0": {"c1": 0.1, "c2": 0.3}, "a1": {"c0": 0.1, "c2": 0.4}, "a2": {"c0": 0.3, "c1": 0.1}}
    if not q:
        for k in (1, 2):
            dep(f"tri3-decimal-costs-k{k}", {"a0": 100, "a1": 100, "a2": 100}, one, tri3, k, routes=fr2, hosting=fh2)
    # two computations per agent (several replicas from the same owner: the worst-case footprint per owner matters)
    two = {"a0": {"c0": 1, "c3": 3}, "a1": {"c1": 1, "c4": 3}, "a2": {"c2": 1}}
    edges5 = [("c0", "c1"), ("c1", "c2"), ("c3", "c4"), ("c0", "c4"), ("c3", "c2")]
    for k in (2,) if q else (1, 2, 3):
        dep(f"tri-two-comps-k{k}", {"a0": 9, "a1": 9, "a2": 6}, two, edges5, k)
        dep(f"tri-two-comps-ample-k{k}", {"a0": 100, "a1": 100, "a2": 100}, two, edges5, k)
    # two computations of EQUAL footprint owned by the same agent (their replicas land on the same tight host)
    same = {"a0": {"c0": 3, "c3": 3}, "a1": {"c1": 2}, "a2": {"c2": 1}}
    edges_same = [("c0", "c2"), ("c3", "c2"), ("c1", "c2"), ("c0", "c1"), ("c3", "c1")]
    for k in (2,) if q else (2, 3):
        dep(f"equal-footprints-tight-k{k}", {"a0": 20, "a1": 9, "a2": 8}, same, edges_same, k)
        dep(f"equal-footprints-tight2-k{k}", {"a0": 20, "a1": 8, "a2": 8}, same, edges_same, k)
    # a line of 4 agents, the first one owning TWO computations: its two replication tokens travel the same path, 2-3 hops deep,
    # in every relative order (only a0 replicates: the interleavings of two token paths are few, all are explored)
    line4 = [("c0", "c1"), ("c4", "c1"), ("c1", "c2"), ("c2", "c3")]
    two4 = {"a0": {"c0": 1, "c4": 1}, "a1": {"c1": 1}, "a2": {"c2": 1}, "a3": {"c3": 1}}
    for k in (2,) if q else (1, 2, 3):
        dep(f"line4-two-tokens-k{k}", {"a0": 100, "a1": 100, "a2": 100, "a3": 100}, two4, line4, k)
        out[-1]["replicators"] = ["a0"]
        # hosting is expensive beyond the first hop: the tokens go back to the owner for a larger budget several times
        dep(f"line4-two-tokens-costly-k{k}", {"a0": 100, "a1": 100, "a2": 100, "a3": 100}, two4, line4, k, hosting={"a2": {"c0": 5, "c4": 5}, "a3": {"c0": 5, "c4": 5}})
        out[-1]["replicators"] = ["a0"]
    if not q:
        star4 = [("c0", "c1"), ("c0", "c2"), ("c0", "c3")]
        one4 = {"a0": {"c0": 1}, "a1": {"c1": 1}, "a2": {"c2": 3}, "a3": {"c3": 1}}
        for k in (1, 2, 3):
            dep(f"star4-k{k}", {"a0": 6, "a1": 6, "a2": 6, "a3": 6}, one4, star4, k)
    return out


def setup(dep):
    """Deterministic set-up: deliver everything (first-enabled order) until quiescent."""
    world, shared = deployment(dep)
    sp = RepSpec(dep, "setup")
    world.mon["_spec"] = sp
    from vf.core import choice as choice_mod

    guard = 0
    while True:
        evs = netx.enabled_events(world, sp)
        if not evs:
            break
        netx.apply_event(world, evs[0], sp, choice_mod.Controller())
        guard += 1
        if guard > 5000 or world.exception is not None:
            raise RuntimeError(f"set-up of {dep['name']} did not settle: {world.exception}")
    return world, shared


def explore(dep, schedule, part):
    world, shared = setup(dep)
    leave = False
    if schedule.startswith("leave:"):
        _, leave, schedule = schedule.split(":", 2)
    sp = RepSpec(dep, "run", leave=leave)
    ex = netx.Explorer(sp, shared=shared, schedule=schedule, max_states=300000)

    def report(key, what, w, hist):
        part.violation(key, what, {"dep": dep, "schedule": schedule, "leave": leave, "history": netx.unroll(hist)})

    ex.track_graph = True
    st = ex.run(world, report)
    for d, h in ex.livelocked()[:1]:
        part.violation("C25|replication-livelock", f"deployment {dep['name']} schedule {schedule}: from the state reached by this history no continuation ever quiesces (request/answer loop): replication is never done", {"dep": dep, "schedule": schedule, "leave": leave, "history": netx.unroll(h)})
        part.count("livelocked_states", len(ex.livelocked()))
    for k in ("states", "transitions", "traces", "revisits"):
        part.count(k, st[k])
    part.maxi("depth", st["max_depth"])
    part.maxi("states_per_run", st["states"])
    part.count("evaluations")
    if ex.capped:
        part.count("capped")
    part.outcome((dep["name"], schedule, leave, tuple(sorted(ex.end_digests))[:8]))
    part.nontriv((dep["name"], schedule, leave))
    if leave:
        part.count("runs_with_a_departure")
    if st["states"] > 50:
        part.sample({"deployment": dep, "schedule": schedule, "states": st["states"], "traces": st["traces"]}, cap=1)


SCHEDULES = ("first", "last", "alt", "alt2", "alt3", "alt4")
LEAVE_DEPS_QUICK = ("line3-ample-k1",)


def shard(items):
    part = Part()
    # runs of one worker are executed back to back in this process: class-level state (the footprint memo) is shared and NOT reset
    for dep, schedule in items:
        explore(dep, schedule, part)
    return part


def run(ctx):
    ctx.level = "model_checking"
    deps = deployments(ctx.tier)
    jobs = []
    for d in deps:
        small = len(d["agents"]) == 3 and (all(len(a["comps"]) == 1 for a in d["agents"].values()) or not ctx.quick)
        if ctx.quick and "decimal" in d["name"]:
            small = False  # 21000 states under all interleavings: canonical schedules in the quick tier
        if "replicators" in d:
            small = True
        if small:
            jobs.append((d, "all"))
            if d["name"] in LEAVE_DEPS_QUICK or (not ctx.quick and all(len(a["comps"]) == 1 for a in d["agents"].values())):
                jobs.extend((d, f"leave:{a}:all") for a in sorted(d["agents"]))
        else:
            for s in SCHEDULES:
                jobs.append((d, s))
    ctx.rule = (
        "explicit-state search over a virtual per-channel-FIFO network of the real UCSReplication computations (fake Agent shells with fixed "
        "capacities / footprints, real Discovery per agent, real Directory) after a deterministic set-up: deployments = line / triangle of 3 "
        "agents with 1 computation each (ample, tight and small capacities, routes and hosting costs), triangle with 2 computations on two "
        "agents, (thorough) a star of 4; k in {1,2} (thorough 3). Every agent's replicate(k) is an event of its own; three-agent deployments "
        f"with one computation per agent (thorough: all three-agent deployments) under ALL interleavings, the others under the canonical schedules {SCHEDULES}; all runs of a worker share the process "
        "(class-level state is not reset between them). Oracle on every state: an agent accepts a replica only if its remaining capacity "
        "covers the new footprint plus the worst-case footprint of the replicas already held for any min(k-1, #owners) owners (computed from "
        "the agent's replica table); at quiescence: every agent reported replication done, replica hosts are distinct agents other than the "
        "owner, at most k, recorded in the directory and really held. evaluations = (deployment, schedule) runs"
    )
    ctx.assumptions = ["Network model: one FIFO channel per ordered pair of computations; discovery set-up is delivered before the explored phase.",
                       "UCSReplication sees a fake agent exposing name, agent_def and computations() only.",
                       "Canonical-schedule runs cover one delivery order each."]
    # keep the runs of one deployment family in the same worker, both orders of the pair (ample first / tight first)
    n = 16
    buckets = [[] for _ in range(n)]
    def weight(j):
        # measured: the exhaustive runs of the ample k=2 deployments and the departure runs dominate (30-45 s each)
        heavy = j[1].startswith("leave:") or (j[1] == "all" and ("ample-k2" in j[0]["name"] or "decimal" in j[0]["name"])) or (j[1] == "all" and not ctx.quick)
        return 30 if heavy else 1

    load = [0] * n
    for j in sorted(jobs, key=lambda j: (-weight(j), j[0]["name"], j[1])):
        i = load.index(min(load))
        buckets[i].append(j)
        load[i] += weight(j)
    for b in buckets[::2]:
        b.reverse()
    ctx.pmap(shard, [b for b in buckets if b])
    if ctx.part.counters.get("capped"):
        ctx.exhaustive = False
        ctx.rule += " CAP: a run hit the 300000-state cap."


def replay(case):
    dep = case["dep"]
    world, shared = setup(dep)
    sp = RepSpec(dep, "run", leave=case.get("leave", False))
    found = []

    def observe(w, ev):
        sp.check_state(w, ev, lambda k, what: found.append((k, what)))

    w = netx.replay(world, sp, case["history"], observe)
    print("done:", w.mon.get("done"))
    print({a: dict(w.comps["_replication_" + a]._hosted_replicas) for a in dep["agents"] if "_replication_" + a in w.comps})
    if not netx.enabled_events(w, sp):
        sp.check_end(w, lambda k, what: found.append((k, what)))
    else:
        # livelock cases: no continuation from the replayed state may ever quiesce
        ex = netx.Explorer(sp, shared=shared, schedule=case.get("schedule", "all"), max_states=50000)
        ex.track_graph = True
        ex.run(w, lambda key, what, w_, h: found.append((key, what)))
        if any(h is None for _, h in ex.livelocked()):
            found.append(("C25|replication-livelock", f"no end state reachable from the replayed state ({ex.stats['states']} states explored, {len(ex.terminal)} end states)"))
    for k, what in found:
        print("FOUND", k, "::", what)
    return bool(found)
