"""C15 Everything sent between agents survives the wire and process spawn.

Bounded-exhaustive enumeration (E2) of the objects pyDCOP transmits, pushed through the real transformation of
HttpCommunicationLayer.send_msg / MPCHttpHandler.do_POST

    send_msg: simple_repr(msg) -> requests.post(.., json=msg_repr): requests' body encoder -> bytes
    do_POST : json.loads(str(bytes, "utf-8")) -> from_repr(..)

(both methods are executed for real; only the socket between them is replaced, see `transport`)

(or through pickle for AgentDef, as multiprocessing does for run_local_process_dcop) and compared DEEPLY with the
original: same class, same public fields recursively (instance attributes and properties not starting with "_"),
relations equal on every assignment, variables' own costs equal on every domain value, node links / neighbours equal
as sets.  pyDCOP's own __eq__ is never used (it ignores links, routes, cycle ids...).

Corpus
 (i)   every Message class found by walking pydcop.algorithms.*, infrastructure.{computations, orchestrator,
       discovery, orchestratedagents, agents}, replication.*, reparation.* -- instantiated from the full product of
       small per-field menus holding the kinds of values the code really puts there;
 (ii)  every message that enters a channel when the real computations of all 13 algorithms run on 3 tiny instances
       on the virtual network of vf.core.netx (2 schedules x 2 answer policies for the random draws);
 (iii) ComputationDef of every node of the four graph models over an exhaustive family of small DCOPs x every
       algorithm of that graph type x {min,max} x {default, non-default parameters};
 (iv)  AgentDef over the C31 alphabet, through pickle.
"""
import contextlib
import importlib
import inspect
import io
import itertools
import json
import pickle
import pkgutil

from vf.core.runner import Part

URL = "http://127.0.0.1:9000/pydcop"
INF = float("inf")
NSHARD = 48


# =============================================================================================== the wire
class WireFailure(Exception):
    def __init__(self, stage, exc):
        super().__init__(f"{stage}: {type(exc).__name__}: {exc}")
        self.stage = stage
        self.exc = exc


_TRANSPORT = {}


def transport():
    """The real HttpCommunicationLayer.send_msg and the real MPCHttpHandler.do_POST, joined without a socket:
    inside communication.py `requests.post` is replaced by requests' own request preparation (everything
    requests.post does before it opens the connection); the prepared headers and body are what do_POST reads."""
    if _TRANSPORT:
        return _TRANSPORT
    import requests as real

    import pydcop.infrastructure.communication as cm

    class Response:
        status_code = 200

    class RequestsStandIn:
        exceptions = real.exceptions

        def post(self, url, timeout=None, **kw):
            _TRANSPORT["prepared"] = real.Request("POST", url, **kw).prepare()
            return Response()

    class Directory:
        def agent_address(self, agent):
            return ("127.0.0.1", 9000)

    class Inbox:
        def on_post_message(self, path, sender, dest, comp_msg):
            _TRANSPORT["received"] = comp_msg

    class Server:
        comm = Inbox()

    cm.requests = RequestsStandIn()
    sender = object.__new__(cm.HttpCommunicationLayer)  # no constructor: it would bind a port and start a server thread
    sender._on_error = None
    sender.discovery = Directory()
    handler = object.__new__(cm.MPCHttpHandler)
    handler.server = Server()
    handler.path = "/pydcop"
    handler.send_response = handler.send_header = handler.end_headers = lambda *a, **k: None
    _TRANSPORT.update(cm=cm, real=real, sender=sender, handler=handler)
    return _TRANSPORT


def wire(obj, notes):
    """send_msg + do_POST.  notes receives 'nonfinite' when requests' encoder refuses the body send_msg hands it
    (json.dumps(.., allow_nan=False) since requests 2.26); the round trip then goes on with a plain json.dumps body
    so that the rest of the object is still compared."""
    from pydcop.utils.simple_repr import simple_repr

    t = transport()
    cm, real = t["cm"], t["real"]
    try:
        msg_repr = simple_repr(obj)  # first statement of send_msg, repeated here only to name the failing stage
    except Exception as e:
        raise WireFailure("encode", e)
    t.pop("prepared", None)
    try:
        t["sender"].send_msg("a1", "a2", cm.ComputationMessage("c1", "c2", obj, 20))
        prepared = t["prepared"]
    except real.exceptions.InvalidJSONError as e:
        notes.append(("nonfinite", str(e)))
        try:
            prepared = real.Request("POST", URL, headers={"type": "20"}, data=json.dumps(msg_repr)).prepare()
        except Exception as e2:
            raise WireFailure("json", e2)
    except Exception as e:
        raise WireFailure("json", e)
    body = prepared.body if isinstance(prepared.body, bytes) else prepared.body.encode("utf-8")
    handler = t["handler"]
    handler.headers = prepared.headers
    handler.rfile = io.BytesIO(body)
    t.pop("received", None)
    try:
        with contextlib.redirect_stdout(io.StringIO()):
            handler.do_POST()
        return t["received"].msg
    except Exception as e:
        raise WireFailure("decode", e)


# ================================================================================== deep, boring comparison
def _np():
    import numpy as np

    return np


def is_message_type_class(cls):
    init = vars(cls).get("__init__")
    return init is not None and getattr(init, "__qualname__", "").startswith("message_type.<locals>")


def ctor_fields(cls):
    """Names the constructor accepts (what simple_repr can possibly carry)."""
    init = cls.__init__
    if is_message_type_class(cls):
        code = init.__code__
        for name, cell in zip(code.co_freevars, init.__closure__ or ()):
            if name == "fields":
                return list(cell.cell_contents)
        return []
    try:
        code = init.__code__
    except AttributeError:
        return []
    return [a for a in code.co_varnames[: code.co_argcount] if a != "self"]


def class_name(cls):
    if is_message_type_class(cls):
        return "message_type:" + cls.__name__
    return cls.__module__.split(".")[-1] + "." + cls.__qualname__


def view(x, memo=None, depth=0):
    """Plain-data picture of everything public in x.  ("obj", class, {field: view}, [fields set after construction])"""
    np = _np()
    if memo is None:
        memo = {}
    if depth > 30:
        return ("too-deep",)
    if x is None:
        return ("none",)
    if isinstance(x, (bool, np.bool_)):
        return ("bool", bool(x))
    if isinstance(x, (int, np.integer)):
        return ("int", int(x))
    if isinstance(x, (float, np.floating)):
        return ("float", repr(float(x)))
    if isinstance(x, str):
        return ("str", x)
    if isinstance(x, np.ndarray):
        return ("ndarray", view(x.tolist(), memo, depth + 1))
    if isinstance(x, list):
        return ("list", [view(i, memo, depth + 1) for i in x])
    if isinstance(x, tuple):
        return ("tuple", [view(i, memo, depth + 1) for i in x])
    if isinstance(x, (set, frozenset)):
        return ("set", sorted((view(i, memo, depth + 1) for i in x), key=repr))
    if isinstance(x, dict):
        return ("dict", sorted(((f"{type(k).__name__}:{k!r}", view(v, memo, depth + 1)) for k, v in x.items()), key=lambda kv: kv[0]))
    if inspect.isroutine(x) or inspect.isclass(x):
        return ("callable",)
    if id(x) in memo:
        return memo[id(x)][1]
    v = obj_view(x, memo, depth)
    memo[id(x)] = (x, v)  # keeps x alive: ids stay unique while the memo lives
    return v


def as_set(v):
    if v[0] in ("list", "tuple", "set"):
        return ("set", sorted(v[1], key=repr))
    return v


def obj_view(x, memo, depth):
    from pydcop.computations_graph.objects import ComputationNode
    from pydcop.dcop.objects import Variable
    from pydcop.dcop.relations import RelationProtocol
    from pydcop.utils.expressionfunction import ExpressionFunction

    cls = type(x)
    inst = [k for k in getattr(x, "__dict__", {}) if not k.startswith("_")]
    names = set(inst)
    for klass in cls.__mro__:
        for k, v in vars(klass).items():
            if isinstance(v, property) and not k.startswith("_"):
                names.add(k)
    fields = {}
    for k in sorted(names):
        try:
            val = getattr(x, k)
        except Exception as e:
            fields[k] = ("raises", type(e).__name__)
            continue
        fields[k] = view(val, memo, depth + 1)
    if isinstance(x, ComputationNode):
        # "node links (incl. type/source/target) and neighbours equal as sets"
        fields["neighbors"] = as_set(fields.get("neighbors", ("none",)))
        fields["links"] = as_set(fields.get("links", ("none",)))
    if isinstance(x, ExpressionFunction):
        fields["variable_names"] = as_set(fields.get("variable_names", ("none",)))
        fields["exp_vars"] = as_set(fields.get("exp_vars", ("none",)))
    if isinstance(x, Variable):
        costs = []
        for val in x.domain:
            try:
                costs.append(view(x.cost_for_val(val)))
            except Exception as e:
                costs.append(("raises", type(e).__name__))
        fields["cost_for_val"] = ("list", costs)
    if isinstance(x, RelationProtocol):
        fields["values_on_all_assignments"] = relation_table(x)
    ctor = set(ctor_fields(cls))
    extras = sorted(k for k in inst if k not in ctor and not (isinstance(x, ExpressionFunction)))
    return ("obj", class_name(cls), fields, extras)


def relation_table(rel):
    try:
        dims = list(rel.dimensions)
        names = [v.name for v in dims]
        rows = []
        for vals in itertools.product(*[list(v.domain) for v in dims]):
            try:
                rows.append((repr(vals), view(rel(**dict(zip(names, vals))))))
            except Exception as e:
                rows.append((repr(vals), ("raises", type(e).__name__)))
        return ("dict", rows)
    except Exception as e:
        return ("raises", type(e).__name__)


SCALARS = ("none", "bool", "int", "float", "str", "raises")


def diffs(a, b, notes, path="", owner=None, field=None):
    """a = picture of the original, b = picture of the decoded object.  Yields nothing when deeply equal, else one
    (path, (owner class, field was set after construction), field, kind, expected, got) per differing place."""
    if a[0] == "set" and b[0] == "list" and len(a[1]) == len(b[1]):
        # JSON has no sets: a set travelling as the list of its elements is accepted (documented as lists)
        notes.append(("set-as-list", path))
        b = ("set", sorted(b[1], key=repr))
    if a[0] != b[0]:
        yield (path, owner, field, "type", a, b)
        return
    tag = a[0]
    if tag == "obj":
        if a[1] != b[1]:
            yield (path, owner or (a[1], False), field or "<self>", "class", ("str", a[1]), ("str", b[1]))
            return
        for k in sorted(set(a[2]) | set(b[2])):
            own = (a[1], k in a[3])
            if k not in b[2]:
                yield (path + "." + k, own, k, "missing", a[2][k], ("absent",))
            elif k not in a[2]:
                yield (path + "." + k, own, k, "extra", ("absent",), b[2][k])
            else:
                yield from diffs(a[2][k], b[2][k], notes, path + "." + k, own, k)
    elif tag in ("list", "tuple", "set", "ndarray"):
        xs, ys = (a[1], b[1]) if tag != "ndarray" else ([a[1]], [b[1]])
        if a != b and all(x[0] in SCALARS for x in xs) and all(y[0] in SCALARS for y in ys):
            yield (path, owner, field, "value", a, b)  # flat lists are reported whole
        elif len(xs) != len(ys):
            yield (path, owner, field, "length", a, b)
        else:
            for i, (x, y) in enumerate(zip(xs, ys)):
                yield from diffs(x, y, notes, f"{path}[{i}]", owner, field)
    elif tag == "dict":
        ka, kb = [k for k, _ in a[1]], [k for k, _ in b[1]]
        if ka != kb:
            yield (path, owner, field, "keys", ("keys", ka), ("keys", kb))
        else:
            for (k, x), (_, y) in zip(a[1], b[1]):
                yield from diffs(x, y, notes, f"{path}[{k}]", owner, field)
    elif a != b:
        yield (path, owner, field, "value", a, b)


def show(v, limit=140):
    def s(v):
        t = v[0]
        if t in ("none", "absent"):
            return "None" if t == "none" else "<absent>"
        if t in ("bool", "int", "str"):
            return repr(v[1])
        if t == "float":
            return v[1]
        if t in ("list", "tuple", "set"):
            o, c = {"list": "[]", "tuple": "()", "set": "{}"}[t]
            return o + ", ".join(s(i) for i in v[1]) + c
        if t == "dict":
            return "{" + ", ".join(f"{k.split(':', 1)[1]}: {s(x)}" for k, x in v[1]) + "}"
        if t == "keys":
            return "keys " + ", ".join(v[1])
        if t == "obj":
            inner = ", ".join(f"{k}={s(x)}" for k, x in v[2].items() if k not in ("values_on_all_assignments", "size"))
            return f"{v[1]}({inner})"
        if t == "ndarray":
            return "array" + s(v[1])
        return "<" + " ".join(str(i) for i in v) + ">"

    out = s(v)
    return out if len(out) <= limit else out[: limit - 3] + "..."


def diff_key(d):
    path, owner, field, kind, _, _ = d
    ocls, extra = owner if owner else ("<top>", False)
    if extra:
        return f"wire|attribute-set-after-construction-not-serialised|{field}"
    return f"wire|{ocls}|{field}|{kind}"


def failure_key(obj, wf):
    e = wf.exc
    et = type(e).__name__
    if wf.stage == "json":
        msg = str(e)
        culprit = msg.split("type ", 1)[1].split(" ", 1)[0] if "Object of type " in msg else "other"
        return f"wire|json-raised|{et}|{culprit}"
    detail = class_name(type(obj))
    if wf.stage == "encode" and is_message_type_class(type(obj)):
        unset = [f for f in ctor_fields(type(obj)) if f not in vars(obj)]
        if unset:
            detail += "|declared-fields-never-set"
    return f"wire|{wf.stage}-raised|{et}|{detail}"


def evaluate_wire(obj, label, case, part, memo=None):
    """One object through the wire; records violations; returns the outcome token."""
    notes = []
    orig = view(obj, memo)
    try:
        back = wire(obj, notes)
    except WireFailure as wf:
        key = failure_key(obj, wf)
        part.violation(key, f"{label}: the {wf.stage} step of the wire round trip raised {type(wf.exc).__name__}: {str(wf.exc)[:200]}", case)
        return (class_name(type(obj)), key)
    if any(n[0] == "nonfinite" for n in notes):
        part.violation(
            "wire|requests-json-encoder|non-finite-float-rejected",
            f"{label}: requests refuses the body of HttpCommunicationLayer.send_msg (requests.post(json=...) encodes with allow_nan=False): "
            f"{[n[1] for n in notes if n[0] == 'nonfinite'][0][:120]}",
            case,
        )
    got = view(back)
    found = {}
    for d in itertools.islice(diffs(orig, got, notes), 40):
        found.setdefault(diff_key(d), d)  # one report per root-cause signature and object
    tolerated = sum(1 for n in notes if n[0] == "set-as-list")
    if tolerated:
        part.count("sets_decoded_as_lists_accepted", tolerated)
    if not found:
        return (class_name(type(obj)), "same" + ("+nonfinite" if any(n[0] == "nonfinite" for n in notes) else ""))
    for key, d in sorted(found.items()):
        part.violation(key, f"{label}: after the wire round trip {d[0] or '<object>'} is {show(d[5])}, was {show(d[4])} ({d[3]})", case)
    return (class_name(type(obj)), "+".join(sorted(found)))


# ============================================================================================ (i) messages
VALS = [0, 1, -1, 2.5, "a", "", True, 2 ** 40]
COSTS = [0, 1, -3, 0.5, 2 ** 31, 2 ** 40, INF, -INF]
COSTS_S = [0, -3, 0.5, 2 ** 40, INF]
AGENTS = ["a1", "a_10"]
COMPS = ["v10", "c_1"]
NAME_LISTS = [[], ["v10"], ["v10", "c_1", "a1"]]
METRICS = [
    {},
    {"count_ext_msg": {"v10": 3, "c_1": 0}, "size_ext_msg": {"v10": 12, "c_1": 0}, "activity_ratio": 0.25, "cycles": {"v10": 2}},
    {"count_ext_msg": 4, "size_ext_msg": 17},
]
GENERIC = [None, 0, 2.5, "a", True, [], ["a", 1], ("a", 1), {"k": 1}, tuple(range(12))]
MS_DOMAINS = [[0, 1], ["a", "b"], [0, 1, 2], [2.5, -1], ["R"], [True, False]]
PATHS = [[], [("x", 0, 0)], [("x", "a", 0.5), ("v2", 1, 2)], [("x", 1, INF)], [(f"x{i:02d}", i % 2, i) for i in range(12)]]

_OBJ = {}


def objects_menu():
    """Variables, relations and computation definitions used as message contents (built once per process)."""
    if _OBJ:
        return _OBJ
    from pydcop.algorithms import AlgorithmDef, ComputationDef
    from pydcop.dcop.objects import Domain, Variable, VariableWithCostDict
    from pydcop.dcop.relations import NAryMatrixRelation

    d01 = Domain("d", "level", [0, 1])
    drg = Domain("colors", "color", ["R", "G", "B"])
    x = Variable("x", d01)
    y = Variable("v2", drg, initial_value="G")
    z = VariableWithCostDict("v10", d01, {0: 0, 1: 3})
    w = VariableWithCostDict("ab", drg, {"R": 0.5, "G": 2, "B": 0})
    _OBJ["vars"] = [x, y, z, w]
    _OBJ["rels"] = [
        NAryMatrixRelation([x], [0, 5], name="u1"),
        NAryMatrixRelation([x, y], [[0, 2, 1], [5, 1, 0]], name="joined_utils"),
        NAryMatrixRelation([y, x], [[0.5, 2], [2 ** 40, 1], [-3, 7]]),
        NAryMatrixRelation([x, z], [[0, INF], [1.5, 0]], name="hard"),
    ]
    cdefs = []
    spec = (("x", "v2", "v10"), (("k", ("x", "v2")), ("c10", ("v2", "v10")), ("c2", ("v10",))), ("plain", "str", "costdict_int"), "matrix_int")
    dcop = build_dcop(spec)
    for gname, algo in (("constraints_hypergraph", "dsa"), ("factor_graph", "maxsum"), ("pseudotree", "dpop"), ("ordered_graph", "syncbb")):
        g = importlib.import_module("pydcop.computations_graph." + gname).build_computation_graph(dcop)
        adef = AlgorithmDef.build_with_default_param(algo, {}, mode="min")
        node = sorted(g.nodes, key=lambda n: n.name)[-1]
        cdefs.append(ComputationDef(node, adef))
    _OBJ["cdefs"] = cdefs
    return _OBJ


# containers with more than 10 items: position keys '10', '11' sort before '2' as strings
LONG = tuple(f"a{i:02d}" for i in range(12))


def field_menu(field, quick):
    m = objects_menu()
    table = {
        "value": VALS,
        "cost": COSTS_S + [None],
        "improve": COSTS,
        "current_eval": COSTS_S,
        "termination_counter": [0, 3],
        "random_nb": [0, 0.5, 0.999999],
        "go": [True, False],
        "upper_bound": COSTS,
        "lower_bound": COSTS,
        "stop": [True, False],
        "current_path": PATHS,
        "ub": [INF, 0, 3, 2.5],
        "agent": AGENTS,
        "agents": AGENTS + [["a1", "a_10"]],
        "computation": COMPS,
        "computations": NAME_LISTS,
        "selected_computations": NAME_LISTS,
        "replica": COMPS,
        "k": [0, 1, 3],
        "mode": ["value_change", "cycle_change", "period"],
        "period": [None, 0.5, 2],
        "cycle": [0, 7],
        "metrics": METRICS,
        "address": [None, ("127.0.0.1", 9001)],
        "subscribe": [True, False],
        "publish": [True, False],
        "replica_hosts": [{}, {"v10": set()}, {"v10": {"a1", "a_10"}, "c_1": {"a1"}}, {"v10": ["a1"]}],
        "repair_info": [
            {},
            {"v10": (["a1", "a_10"], {"c_1": "a3"}, {"x": ["a1"], "v2": []})},
            {"v10": ([], {}, {}), "c_1": (["a1"], {"v10": "a1"}, {})},
        ],
        "comp_def": m["cdefs"],
        "computation_def": m["cdefs"][:2] if quick else m["cdefs"],
        "rep_msg_type": ["replicate_request", "replicate_answer"],
        "budget": [0, 2.5, 7],
        "spent": [0, 1.5],
        "rq_path": [("a1",), ("a1", "a_10", "a3"), LONG],
        "paths": [[], [(1, ("a1", "a_10"))], [(0.5, ("a1", "a_10")), (3, ("a1", "a3", "a4"))], [(11, LONG)]],
        "visited": [["a1"], ["a1", "a_10"], list(LONG)],
        "footprint": [0, 12.5],
        "replica_count": [1, 3],
        "hosts": [[], ["a_10", "a4"]],
        "accept": [True, False],
        "gain": COSTS_S,
    }
    return table.get(field, GENERIC)


def special_cases(modtail, name, cls, quick):
    """Joint menus where the fields are not independent in what the code sends.  Returns a list of kwargs or None."""
    m = objects_menu()
    if name == "Mgm2OfferMessage":
        # on_gain / _send_offer: Mgm2OfferMessage(dict(), False) to non partners, (offers, True) to the partner
        offers = [{}, {(0, 1): 5}, {(0, 1): 5, (1, 0): 2.5, (1, 1): -3}, {("a", "b"): 2 ** 40, ("b", "a"): 0}, {(0, "a"): INF}, {(2.5, True): 1}]
        return [{"offers": {}, "is_offering": False}] + [{"offers": o, "is_offering": True} for o in offers] + [{}]
    if name == "Mgm2ResponseMessage":
        return [{"accept": False}] + [{"accept": True, "value": v, "gain": g} for v in VALS for g in COSTS_S]
    if name == "MaxSumMessage":
        out = []
        for dom in MS_DOMAINS:
            for costs in itertools.product(COSTS_S, repeat=len(dom)):
                out.append({"costs": dict(zip(dom, costs))})
        return out
    if name == "DpopMessage":
        out = [{"msg_type": "UTIL", "content": r} for r in m["rels"]]
        vs = m["vars"]
        for sep in ([vs[0]], [vs[1]], [vs[2]], [vs[0], vs[1]], [vs[3], vs[2], vs[0]]):
            for pick in (0, -1):
                out.append({"msg_type": "VALUE", "content": (list(sep), [list(v.domain)[pick] for v in sep])})
        return out
    if name == "SyncBBTerminateMessage":
        return [{}]  # syncbb.py posts SyncBBTerminateMessage() -- always without arguments
    if name == "Message" and modtail == "computations":
        # maxsum_dynamic / ExternalVariableComputation: Message("SUBSCRIBE", None), Message("VARIABLE_VALUE", value)
        return [{"msg_type": "SUBSCRIBE", "content": None}, {"msg_type": "SUBSCRIBE"}] + [{"msg_type": "VARIABLE_VALUE", "content": v} for v in VALS]
    if name == "MgmGainMessage":
        return [{"value": v, "random_nb": r} for v in COSTS for r in field_menu("random_nb", quick)] + [{"value": v} for v in COSTS]
    return None


MESSAGE_MODULES = None


def message_modules():
    global MESSAGE_MODULES
    if MESSAGE_MODULES is None:
        import pydcop.algorithms
        import pydcop.reparation
        import pydcop.replication

        mods = sorted("pydcop.algorithms." + m.name for m in pkgutil.iter_modules(pydcop.algorithms.__path__))
        mods += ["pydcop.infrastructure." + n for n in ("computations", "orchestrator", "discovery", "orchestratedagents", "agents")]
        mods += sorted("pydcop.replication." + m.name for m in pkgutil.iter_modules(pydcop.replication.__path__))
        mods += ["pydcop.reparation"] + sorted("pydcop.reparation." + m.name for m in pkgutil.iter_modules(pydcop.reparation.__path__))
        MESSAGE_MODULES = mods  # algorithms (alphabetical), then the defining infrastructure modules before their importers
    return MESSAGE_MODULES


def discover_messages():
    """[(module tail, attribute name, class, sender uses SynchronousComputationMixin)] in a fixed order."""
    from pydcop.infrastructure.computations import Message, SynchronizationMsg, SynchronousComputationMixin

    found, seen, unimportable = [], set(), []
    for modname in message_modules():
        try:
            mod = importlib.import_module(modname)
        except Exception as e:
            unimportable.append((modname, type(e).__name__))
            continue
        sync = any(
            inspect.isclass(o) and o is not SynchronousComputationMixin and issubclass(o, SynchronousComputationMixin) and o.__module__ == modname
            for o in vars(mod).values()
        )
        explicit = [(n, o) for n, o in vars(mod).items() if inspect.isclass(o) and issubclass(o, Message)]
        # classes defined here first, then what is only imported (message_type classes all claim computations.py)
        explicit.sort(key=lambda no: (not (no[1].__module__ == modname or is_message_type_class(no[1])), no[0]))
        for n, o in explicit:
            if id(o) in seen:
                # a class imported by a module whose computations are synchronous is also sent with a cycle id
                if sync:
                    for i, f in enumerate(found):
                        if f[2] is o and not f[3]:
                            found[i] = (f[0], f[1], f[2], True)
                continue
            if o.__module__ != modname and not is_message_type_class(o):
                continue  # will be (or was) met in its own module
            seen.add(id(o))
            found.append((modname.split(".")[-1], n, o, sync or o is SynchronizationMsg))
    return found, unimportable


def message_cases(modtail, name, cls, sync, quick):
    """All constructor argument sets (kwargs) x cycle-id stamps for one message class."""
    base = special_cases(modtail, name, cls, quick)
    if base is None:
        fields = ctor_fields(cls)
        base = [dict(zip(fields, combo)) for combo in itertools.product(*[field_menu(f, quick) for f in fields])]
    stamps = [None, 0, 7] if sync else [None]
    if cls.__name__ == "SynchronizationMsg":
        stamps = [0, 7]  # only ever built by the mixin, which stamps it
    return [(kw, st) for kw in base for st in stamps]


def build_message(cls, kw, stamp):
    msg = cls(**kw)
    if stamp is not None:
        msg.cycle_id = stamp  # SynchronousComputationMixin.post_msg: msg.cycle_id = self._current_cycle
    return msg


def nonempty(v):
    return v is not None and v != [] and v != {} and v != () and v != ""


def run_message_class(idx, sub, nsub, quick, part):
    found, _ = discover_messages()
    modtail, name, cls, sync = found[idx]
    cases = message_cases(modtail, name, cls, sync, quick)
    memo = {}
    for i, (kw, stamp) in enumerate(cases):
        if i % nsub != sub:
            continue
        label = f"{modtail}.{name}({', '.join(f'{k}={short(v)}' for k, v in kw.items())})" + (f" stamped cycle_id={stamp}" if stamp is not None else "")
        case = {"kind": "msg", "cls": f"{modtail}.{name}", "index": i, "quick": bool(quick), "repr": label}
        try:
            msg = build_message(cls, kw, stamp)
        except Exception as e:
            raise RuntimeError(f"harness: cannot build {label}: {type(e).__name__}: {e}")
        out = evaluate_wire(msg, label, case, part, memo)
        part.count("evaluations")
        part.count("message_cases")
        if any(nonempty(v) for v in kw.values()) or stamp is not None:
            part.nontriv(("msg", modtail, name, i))
        part.outcome(out)
        if i == len(cases) // 2 and sub == (len(cases) // 2) % nsub and idx % 9 == 0:
            part.sample({"message": label, "outcome": out[1]})


def short(v):
    s = repr(v)
    return s if len(s) <= 60 else s[:57] + "..."


# ================================================================================ (iii) computation definitions
POOL = ["x", "v2", "v10", "ab"]  # insertion order != lexical order
CNAMES = ["k", "c10", "c2"]
VAR_KINDS = ["plain", "anon", "str", "floatdom", "init", "binary", "costdict_int", "costdict_str", "costfunc", "noisy0"]
STYLES = ["matrix_int", "matrix_float", "expr", "func"]
GRAPHS = {
    "constraints_hypergraph": ["adsa", "dba", "dsa", "dsatuto", "gdba", "mgm", "mgm2", "mixeddsa"],
    "factor_graph": ["amaxsum", "maxsum"],
    "pseudotree": ["dpop", "ncbb"],
    "ordered_graph": ["syncbb"],
}
# (n variables, max constraints, max arity)
PLAN_QUICK = [(1, 2, 1), (2, 2, 2), (3, 1, 3)]
PLAN_THOROUGH = [(1, 3, 1), (2, 3, 2), (3, 2, 3), (4, 1, 4)]
CELLS = [0, 2, 5, 1, 7, 3, -3, 2 ** 40, 4, 9, 6, 8]
CELLS_F = [0.5, 2, INF, 1, -3.25, 2 ** 40, 0, 7.5]


def dcop_specs(plan):
    """(names, ((cname, scope), ...), kinds, style), simplest first."""
    for n, kmax, max_arity in plan:
        names = tuple(POOL[:n])
        scopes = [c for r in range(1, min(n, max_arity) + 1) for c in itertools.combinations(names, r)]
        assignments = [tuple([k] * n) for k in VAR_KINDS]
        if n > 1:
            assignments.append(tuple(VAR_KINDS[(3 * i + 5) % len(VAR_KINDS)] for i in range(n)))  # mixed kinds
        for k in range(kmax + 1):
            for combo in itertools.combinations_with_replacement(scopes, k):
                cons = tuple((CNAMES[i], sc) for i, sc in enumerate(combo))
                for kinds in assignments:
                    for style in STYLES if cons else STYLES[:1]:
                        yield names, cons, kinds, style


def make_variable(name, kind):
    from pydcop.dcop.objects import BinaryVariable, Domain, Variable, VariableNoisyCostFunc, VariableWithCostDict, VariableWithCostFunc
    from pydcop.utils.expressionfunction import ExpressionFunction

    d01 = Domain("d", "level", [0, 1])
    drg = Domain("colors", "color", ["R", "G"])
    if kind == "plain":
        return Variable(name, d01)
    if kind == "anon":
        return Variable(name, [0, 1, 2])
    if kind == "str":
        return Variable(name, drg)
    if kind == "floatdom":
        return Variable(name, Domain("f", "ratio", [0.5, -1.5]))
    if kind == "init":
        return Variable(name, d01, initial_value=1)
    if kind == "binary":
        return BinaryVariable(name)
    if kind == "costdict_int":
        return VariableWithCostDict(name, d01, {0: 0, 1: 3})
    if kind == "costdict_str":
        return VariableWithCostDict(name, drg, {"R": 0.5, "G": 2})
    if kind == "costfunc":
        return VariableWithCostFunc(name, d01, ExpressionFunction(f"{name} * 2 + 1"))
    if kind == "noisy0":
        return VariableNoisyCostFunc(name, d01, ExpressionFunction(f"{name} * 3"), noise_level=0)
    raise ValueError(kind)


def nest(flat, shape):
    if not shape:
        return flat[0]
    step = len(flat) // shape[0]
    return [nest(flat[i * step:(i + 1) * step], shape[1:]) for i in range(shape[0])]


def make_constraint(ci, cname, scope, variables, style):
    from pydcop.dcop.relations import NAryFunctionRelation, NAryMatrixRelation, UnaryFunctionRelation, constraint_from_str
    from pydcop.utils.expressionfunction import ExpressionFunction

    vs = [variables[v] for v in scope]
    if style.startswith("matrix"):
        shape = [len(v.domain) for v in vs]
        size = 1
        for s in shape:
            size *= s
        cells = CELLS if style == "matrix_int" else CELLS_F
        flat = [cells[(i + 3 * ci) % len(cells)] for i in range(size)]
        return NAryMatrixRelation(vs, nest(flat, shape), name=cname)
    expr = " + ".join(v if i == 0 else f"{i + 1} * {v}" for i, v in enumerate(scope))
    if style == "expr":
        return constraint_from_str(cname, expr, list(variables.values()))
    if len(vs) == 1:
        return UnaryFunctionRelation(cname, vs[0], ExpressionFunction(expr + " * 3"))
    # expression with a fixed parameter, arguments passed by keyword
    return NAryFunctionRelation(ExpressionFunction(expr + " * kk", kk=3), vs, name=cname, f_kwargs=True)


def build_dcop(spec):
    from pydcop.dcop.dcop import DCOP

    names, cons, kinds, style = spec
    dcop = DCOP("p")
    variables = {}
    for n, k in zip(names, kinds):
        variables[n] = make_variable(n, k)
        dcop.add_variable(variables[n])
    for ci, (cname, scope) in enumerate(cons):
        dcop.add_constraint(make_constraint(ci, cname, scope, variables, style))
    return dcop


_ALGO_DEFS = {}


def algo_defs(algo):
    """[(label, AlgorithmDef)]: {min,max} x {default parameters, every listed parameter at its last allowed value}."""
    if algo in _ALGO_DEFS:
        return _ALGO_DEFS[algo]
    from pydcop.algorithms import AlgorithmDef, load_algorithm_module

    am = load_algorithm_module(algo)
    pdefs = getattr(am, "algo_params", None)
    out = []
    for mode in ("min", "max"):
        if pdefs is None:
            out.append((f"{mode}/bare", AlgorithmDef(algo, {}, mode)))
            continue
        out.append((f"{mode}/default", AlgorithmDef.build_with_default_param(algo, {}, mode=mode)))
        nd = {}
        for p in pdefs:
            if p.values:
                nd[p.name] = p.values[-1]
            elif p.type == "int":
                nd[p.name] = 5
            elif p.type == "float":
                nd[p.name] = 0.25
        out.append((f"{mode}/nondefault", AlgorithmDef.build_with_default_param(algo, nd, mode=mode)))
    _ALGO_DEFS[algo] = out
    return out


def spec_json(spec):
    names, cons, kinds, style = spec
    return {"names": list(names), "cons": [[c, list(sc)] for c, sc in cons], "kinds": list(kinds), "style": style}


def spec_from_json(j):
    return (tuple(j["names"]), tuple((c, tuple(sc)) for c, sc in j["cons"]), tuple(j["kinds"]), j["style"])


def run_cdef_spec(spec, part, only=None, verbose=False):
    """All ComputationDefs of one DCOP: 4 graph models x every node x every algorithm definition."""
    from pydcop.algorithms import ComputationDef

    dcop = build_dcop(spec)
    sj = spec_json(spec)
    head = f"DCOP variables {list(zip(spec[0], spec[2]))} constraints {[(c, list(sc)) for c, sc in spec[1]]} ({spec[3]})"
    for gname, algos in GRAPHS.items():
        gmod = importlib.import_module("pydcop.computations_graph." + gname)
        try:
            graph = gmod.build_computation_graph(dcop)
        except Exception as e:  # building graphs is C16/C17's subject
            part.count("graphs_not_built")
            part.notes.append(f"{gname}.build_computation_graph raised {type(e).__name__} on a corpus DCOP (not judged here)")
            continue
        memo = {}
        for node in sorted(graph.nodes, key=lambda n: n.name):
            for algo in algos:
                for alabel, adef in algo_defs(algo):
                    if only is not None and (gname, node.name, algo, alabel) != only:
                        continue
                    cdef = ComputationDef(node, adef)
                    label = f"{head}: ComputationDef(node {node.name} of {gname}, {algo} {alabel})"
                    case = {"kind": "cdef", "spec": sj, "graph": gname, "node": node.name, "algo": algo, "algodef": alabel}
                    out = evaluate_wire(cdef, label, case, part, memo)
                    part.count("evaluations")
                    part.count("computation_defs")
                    if list(node.links):
                        part.nontriv(("cdef", repr(spec), gname, node.name, algo, alabel))
                    part.outcome((gname,) + out)
                    if verbose:
                        print(f"  {gname} node {node.name} {algo} {alabel}: {out[1]}")


# ==================================================================================== (iv) AgentDef via pickle
UNSET = "<unset>"
A_NAMES = ["a1", "a2", "a3"]
ROUTE_ITEMS = [("a1", 2), ("a2", 0), ("a3", 0.5)]
HOST_ITEMS = [("c1", 0), ("c2", 5)]
DEF_ROUTES = [UNSET, 1, 7, 0]
DEF_HOSTS = [UNSET, 0, 3]
EXTRAS = [{}, {"capacity": 10}, {"foo": "x"}, {"capacity": 10, "foo": "x"}]
Q_AGENTS = ["a1", "a2", "a3", "a4"]
Q_COMPS = ["c1", "c2", "c3"]


def subsets(items):
    for r in range(len(items) + 1):
        for c in itertools.combinations(items, r):
            yield dict(c)


def agent_cases():
    for name in A_NAMES:
        for dr in DEF_ROUTES:
            for routes in [None] + list(subsets(ROUTE_ITEMS)):
                for dh in DEF_HOSTS:
                    for hosting in [None] + list(subsets(HOST_ITEMS)):
                        for extra in EXTRAS:
                            yield (name, dr, routes, dh, hosting, extra)


def agent_kwargs(case):
    name, dr, routes, dh, hosting, extra = case
    kw = dict(extra)
    if dr != UNSET:
        kw["default_route"] = dr
    if routes is not None:
        kw["routes"] = dict(routes)
    if dh != UNSET:
        kw["default_hosting_cost"] = dh
    if hosting is not None:
        kw["hosting_costs"] = dict(hosting)
    return kw


def observe_agent(agent):
    def safe(f):
        try:
            v = f()
            return dict(v) if isinstance(v, dict) else v
        except Exception as e:
            return f"<raises {type(e).__name__}>"

    obs = {"name": safe(lambda: agent.name)}
    for a in Q_AGENTS:
        obs["route:" + a] = safe(lambda: agent.route(a))
    for c in Q_COMPS:
        obs["hosting_cost:" + c] = safe(lambda: agent.hosting_cost(c))
    obs["default_route"] = safe(lambda: agent.default_route)
    obs["default_hosting_cost"] = safe(lambda: agent.default_hosting_cost)
    obs["routes"] = safe(lambda: agent.routes)
    obs["hosting_costs"] = safe(lambda: agent.hosting_costs)
    obs["extra_attr"] = safe(lambda: agent.extra_attr())
    for k in ("capacity", "foo"):
        obs["attr:" + k] = safe(lambda: getattr(agent, k))
    return obs


def agent_case(case, part):
    from pydcop.dcop.objects import AgentDef

    case = tuple(case)
    kw = agent_kwargs(case)
    agent = AgentDef(case[0], **kw)
    exp = observe_agent(agent)
    jcase = {"kind": "agent", "case": list(case)}
    label = f"AgentDef({case[0]!r}, **{kw})"
    try:
        # multiprocessing.Process(args=[agents[a_name], ..]) pickles its arguments with the default protocol
        back = pickle.loads(pickle.dumps(agent))
    except Exception as e:
        part.violation(f"pickle|AgentDef|raised|{type(e).__name__}", f"{label}: pickling raised {type(e).__name__}: {e}", jcase)
        return ("raised",)
    got = observe_agent(back)
    bad = sorted(k for k in exp if got[k] != exp[k] or type(got[k]) != type(exp[k]))
    if type(back) is not AgentDef:
        bad.append("class")
    if bad:
        feats = sorted({k.split(":")[0] for k in bad})
        part.violation(
            "pickle|AgentDef|" + "+".join(feats),
            f"{label}: after pickle.loads(pickle.dumps(..)) {bad[:4]} give {[got.get(k) for k in bad[:4]]}, gave {[exp.get(k) for k in bad[:4]]} before",
            jcase,
        )
        return ("differs", tuple(feats))
    return ("same",)


# ============================================================================================== (ii) harvest
HARVEST_ALGOS = ["adsa", "amaxsum", "dba", "dpop", "dsa", "dsatuto", "gdba", "maxsum", "mgm", "mgm2", "mixeddsa", "ncbb", "syncbb"]
HARVEST_STEPS = 120
HARVEST_INSTANCES = {
    "pair": {"vars": {"v0": [0, 1], "v1": [0, 1]}, "cons": [{"name": "c0", "scope": ["v0", "v1"], "table": [[0, 2], [5, 1]]}], "mode": "min"},
    "chain-str-costs-max": {
        "vars": {"v0": ["a", "b"], "v1": ["a", "b"], "v2": ["a", "b"]},
        "costs": {"v0": [0, 3]},
        "cons": [{"name": "c0", "scope": ["v0", "v1"], "table": [[0, 2], [5, 1]]}, {"name": "c1", "scope": ["v1", "v2"], "table": [[0.5, 1], [1, 0]]}],
        "mode": "max",
    },
    "ternary-unary-costs": {
        "vars": {"v0": [0, 1], "v1": [0, 1], "v2": [0, 1]},
        "costs": {"v1": [2, 0]},
        "cons": [
            {"name": "c0", "scope": ["v0", "v1", "v2"], "table": [[[0, 1], [2, 5]], [[1, 0], [5, 2]]]},
            {"name": "c1", "scope": ["v0"], "table": [0, 3]},
        ],
        "mode": "min",
    },
}


def harvest_run(algo, inst, sched, policy, on_message):
    """One bounded run of the real computations on netx's virtual network; on_message(n, src, dst, msg) per post."""
    import pydcop.dcop.objects as objmod

    from vf.checks import ls_common
    from vf.core import choice as choice_mod
    from vf.core import netx

    class Last(choice_mod.Controller):
        def pick(self, arity, label=""):
            self.taken.append(arity - 1)
            self.arity.append(arity)
            self.labels.append(label)
            return arity - 1

    class Tap(netx.Spec):
        def __init__(self):
            self.n = 0

        def on_post(self, world, src, dst, msg):
            on_message(self.n, src, dst, msg)
            self.n += 1

    spec = HARVEST_INSTANCES[inst]
    am = ls_common.algo_module(algo)
    choice_mod.install(objmod)
    world = None
    err = None
    for params in ({"stop_cycle": 3}, {}):
        if params and "stop_cycle" not in [p.name for p in getattr(am, "algo_params", [])]:
            continue
        try:
            # constructors draw too (max-sum noise): they get this run's answer policy, not a stale controller
            choice_mod.set_controller(Last() if policy == "last" else choice_mod.Controller())
            with contextlib.redirect_stdout(io.StringIO()):
                world, _, _ = ls_common.build_world(spec, algo, params)
            break
        except Exception as e:
            err = e
    if world is None:
        return ("not-startable", type(err).__name__)
    tap = Tap()
    world.mon["_spec"] = tap
    steps = 0
    with contextlib.redirect_stdout(io.StringIO()):
        while steps < HARVEST_STEPS:
            evs = netx.enabled_events(world, tap)
            if not evs:
                break
            ev = evs[steps % len(evs)] if sched == "rotate" else evs[0]
            netx.apply_event(world, ev, tap, Last() if policy == "last" else choice_mod.Controller())
            steps += 1
    ls_common._clear_caches(algo)
    return ("ran", steps, tap.n, None if world.exception is None else world.exception[1])


def run_harvest(algo, inst, part, target=None):
    seen = set()
    for sched in ("first", "rotate"):
        for policy in ("zero", "last"):
            def on_message(n, src, dst, msg, sched=sched, policy=policy):
                part.count("harvested_messages")
                v = view(msg)
                token = repr(v)
                if target is not None:
                    if target != (sched, policy, n):
                        return
                elif token in seen:
                    return
                seen.add(token)
                label = f"{algo} on {inst} ({sched}/{policy} run), post #{n} {src}->{dst}: {show(v, 200)}"
                case = {"kind": "harvest", "algo": algo, "inst": inst, "sched": sched, "policy": policy, "n": n}
                out = evaluate_wire(msg, label, case, part)
                part.count("evaluations")
                part.count("harvested_distinct_messages")
                part.nontriv(("harvest", algo, inst, token))
                part.outcome(("harvest", algo) + out)
                if target is not None:
                    print(label, "->", out[1])

            res = harvest_run(algo, inst, sched, policy, on_message)
            part.count("harvest_runs")
            if res[0] == "not-startable":
                part.count("harvest_runs_not_startable")
                part.notes.append(f"harvest: {algo} cannot be built on {inst} ({res[1]}); not judged here")
            elif res[3] is not None:
                part.notes.append(f"harvest: a handler of {algo} raised {res[3]} on {inst}; messages posted before are kept (not judged here)")


# ================================================================================================== driver
def jobs_for(quick):
    found, _ = discover_messages()
    jobs = []
    for idx, (modtail, name, cls, sync) in enumerate(found):
        n = len(message_cases(modtail, name, cls, sync, quick))
        nsub = 1 if n < 600 else min(8, n // 400)
        for sub in range(nsub):
            jobs.append(("msg", idx, sub, nsub))
    for algo in HARVEST_ALGOS:
        for inst in HARVEST_INSTANCES:
            jobs.append(("harvest", algo, inst))
    for i in range(NSHARD):
        jobs.append(("cdef", i, NSHARD))
    for i in range(4):
        jobs.append(("agent", i, 4))
    return jobs


def shard(item):
    kind, quick = item[0], item[-1]
    item = item[:-1]
    part = Part()
    if kind == "msg":
        _, idx, sub, nsub = item
        run_message_class(idx, sub, nsub, quick, part)
        if sub == 0:
            part.count("message_classes")
    elif kind == "harvest":
        run_harvest(item[1], item[2], part)
    elif kind == "cdef":
        _, idx, n = item
        plan = PLAN_QUICK if quick else PLAN_THOROUGH
        for i, spec in enumerate(dcop_specs(plan)):
            if i % n != idx:
                continue
            run_cdef_spec(spec, part)
            part.count("dcops")
            if i in (7, 400):
                part.sample({"dcop": spec_json(spec), "computation_defs": "every node of 4 graph models x every algorithm x min/max x default/non-default"})
    elif kind == "agent":
        _, idx, n = item
        for i, case in enumerate(agent_cases()):
            if i % n != idx:
                continue
            out = agent_case(case, part)
            part.count("evaluations")
            part.count("agentdef_cases")
            if case[2] or case[4] or case[5]:
                part.nontriv(("agent", case))
            part.outcome(("agent",) + out)
            if i == 1234:
                part.sample({"AgentDef": list(case), "outcome": out})
    notes, part.notes = part.notes, []
    for n in notes:
        if n not in part.notes:
            part.notes.append(n)
    return part


def run(ctx):
    ctx.level = "exploration"
    found, unimportable = discover_messages()
    plan = PLAN_QUICK if ctx.quick else PLAN_THOROUGH
    ctx.rule = (
        f"(i) the {len(found)} Message classes found by walking pydcop.algorithms.*, infrastructure.{{computations,orchestrator,"
        "discovery,orchestratedagents,agents}, replication.*, reparation.*: full product of the per-field menus (domain values "
        f"{VALS}; costs {[str(c) for c in COSTS]}; names, name lists, metrics dicts, addresses, paths of tuples, sets of hosts, repair info, "
        "matrix relations, Variables, ComputationDefs of the 4 graph models; joint menus where the code never sends the product: "
        "MGM2 offer/response, DPOP UTIL/VALUE, SyncBB terminate without arguments), and, for classes posted by synchronous "
        "computations, each case bare and stamped with cycle_id 0 and 7 as SynchronousComputationMixin.post_msg does; "
        f"(ii) every message posted in the first {HARVEST_STEPS} events of the real computations of {len(HARVEST_ALGOS)} algorithms x "
        f"{len(HARVEST_INSTANCES)} instances x 2 schedules x 2 answer policies for random draws (distinct messages evaluated); "
        f"(iii) for (variables, max constraints, max arity) in {plan}: names {POOL} (insertion != lexical order), every multiset of scopes, "
        f"variables all of one kind for each kind of {VAR_KINDS} plus one mixed assignment, constraints built {STYLES}, then "
        "ComputationDef(node, algo) for every node of constraints hyper-graph / factor graph / pseudo-tree / ordered graph x every algorithm "
        "of that graph type x {min,max} x {default parameters, every parameter at a non-default value}; "
        "(iv) AgentDef over names x default_route{unset,1,7,0} x route subsets of {a1:2,a2:0,a3:0.5} x default_hosting{unset,0,3} x hosting "
        "subsets of {c1:0,c2:5} x 4 extra-attribute sets through pickle, observed by name, route(4 agents), hosting_cost(3 computations), "
        "defaults, tables, extra attributes. Oracle: deep equality of the public picture (class, public attributes and properties "
        "recursively, relation values on all assignments, variable costs on all domain values, links and neighbours as sets) before and after. "
        "Non-trivial = a message with a non-empty field or a cycle stamp, a node with at least one link, an AgentDef with a route, hosting or extra entry."
    )
    ctx.assumptions = [
        "The socket is not exercised: the real HttpCommunicationLayer.send_msg runs with requests.post replaced by requests' own request preparation (all that requests.post does before connecting); the prepared headers and body are read by the real MPCHttpHandler.do_POST (objects built without their constructors: no port, no thread).",
        "AgentDef process hand-over = pickle.loads(pickle.dumps(.)) with the default protocol (multiprocessing under the spawn/forkserver start methods; comment above AgentDef.__getstate__).",
        "A set whose elements come back as a list (JSON has no sets; replica_hosts is documented as lists) is accepted; tuples must stay tuples, dict keys keep their type.",
        "Public picture = instance attributes and properties whose name does not start with '_' ; python functions are compared by presence only.",
        "Harvest runs use netx's virtual FIFO network and the choice facade (answers: always first / always last alternative); algorithms that cannot be built or whose handlers raise are noted, not judged.",
        "VariableNoisyCostFunc only with noise_level 0 (its noise is redrawn at construction by design); no ExternalVariable, no python-function relations (documented as not serialisable).",
    ]
    for modname, et in unimportable:
        ctx.part.notes.append(f"module {modname} cannot be imported ({et}); its message classes are not in the corpus")
    ctx.extra["message_classes_found"] = [f"{m}.{n}" for m, n, _, _ in found]
    jobs = [j + (ctx.quick,) for j in jobs_for(ctx.quick)]
    # heavy jobs first
    jobs.sort(key=lambda j: {"cdef": 0, "msg": 1, "harvest": 2, "agent": 3}[j[0]])
    ctx.pmap(shard, ctx.rotate(jobs))


def replay(case):
    part = Part()
    kind = case["kind"]
    if kind == "msg":
        found, _ = discover_messages()
        for modtail, name, cls, sync in found:
            if f"{modtail}.{name}" == case["cls"]:
                kw, stamp = message_cases(modtail, name, cls, sync, case.get("quick", True))[case["index"]]
                label = f"{modtail}.{name}({', '.join(f'{k}={short(v)}' for k, v in kw.items())})" + (f" stamped cycle_id={stamp}" if stamp is not None else "")
                msg = build_message(cls, kw, stamp)
                print("message :", label)
                print("original:", show(view(msg), 400))
                try:
                    print("decoded :", show(view(wire(msg, [])), 400))
                except WireFailure as wf:
                    print("wire    :", wf)
                evaluate_wire(msg, label, case, part)
    elif kind == "cdef":
        spec = spec_from_json(case["spec"])
        print("spec:", spec)
        run_cdef_spec(spec, part, only=(case["graph"], case["node"], case["algo"], case["algodef"]), verbose=True)
    elif kind == "agent":
        print(agent_case(case["case"], part))
    elif kind == "harvest":
        run_harvest(case["algo"], case["inst"], part, target=(case["sched"], case["policy"], case["n"]))
    for v in part.violations[:10]:
        print("violated:", v["key"], "::", v["what"])
    return bool(part.violations)
