"""C19 Messages held across start or pause keep their original order.

Explicit-state search (BFS over operation histories with canonical-state
de-duplication) of the real MessagePassingComputation buffering code, hosted on a
real Agent + Messaging whose loop is played by the harness (the agent thread is
never started: `step` = one iteration of Agent._run's message handling).
"""
import collections
import itertools

from vf.core.runner import Part

OPS = ["recv1", "recv2", "post1", "post2", "start", "pause", "resume", "step", "recvd", "startd"]
CORE_OPS = ["recv1", "post1", "start", "pause", "resume", "step"]


class World:
    def __init__(self):
        from pydcop.infrastructure.agents import Agent
        from pydcop.infrastructure.communication import InProcessCommunicationLayer, Messaging
        from pydcop.infrastructure.computations import Message, MessagePassingComputation, register

        self.Message = Message
        self.handled = []  # (comp, sender, id) in handler order
        self.sent = []  # (src, dst, id, type) reaching the message sender
        world = self

        class Rec(MessagePassingComputation):
            def __init__(self, name):
                super().__init__(name)

            @register("m")
            def _on_m(self, sender, msg, t):
                world.handled.append((self.name, sender, msg.content))

        self.agent = Agent("a0", InProcessCommunicationLayer())
        self.agent._running = True  # as after Agent.start(), but the harness plays the loop
        self.comps = {n: Rec(n) for n in ("c", "d", "t1", "t2")}
        for c in self.comps.values():
            self.agent.add_computation(c)
        # observe what reaches the message sender: wrap the *instance* of Messaging used by this agent
        messaging = self.agent._messaging
        orig = Messaging.post_msg

        def spy(src, dst, msg, msg_type=None, on_error=None):
            world.sent.append((src, dst, msg.content, msg_type))
            return orig(messaging, src, dst, msg, msg_type, on_error)

        # computations captured the bound method at add_computation time -> patch their private sender
        for c in self.comps.values():
            c._msg_sender = spy
        self.spy = spy
        self.agent.run(["t1", "t2"])
        self.n = 0
        # reference model
        self.first_recv = {"c": [], "d": []}  # ids in first reception order, not yet handled
        self.seen_recv = set()
        self.done = set()
        self.posted = []  # (dst, id) in posting order by c
        self.repause_pending = False
        self.errors = []

    def new_id(self):
        self.n += 1
        return self.n

    def queue_snapshot(self):
        q = self.agent._messaging._queue.queue
        return sorted((t, cnt, fm.src_comp, fm.dest_comp, fm.msg.content) for t, cnt, _, fm in q)

    def enabled(self, op):
        c, d = self.comps["c"], self.comps["d"]
        if op == "start":
            return not c.is_running
        if op == "startd":
            return not d.is_running
        if op == "pause":
            return not c.is_paused
        if op == "resume":
            return c.is_paused
        if op == "step":
            return not self.agent._messaging._queue.empty()
        return True

    def apply(self, op):
        a = self.agent
        c = self.comps["c"]
        if op in ("recv1", "recv2", "recvd"):
            src = {"recv1": "s1", "recv2": "s2", "recvd": "s1"}[op]
            dst = "d" if op == "recvd" else "c"
            a._messaging.post_msg(src, dst, self.Message("m", self.new_id()))
        elif op in ("post1", "post2"):
            dst = "t1" if op == "post1" else "t2"
            i = self.new_id()
            self.posted.append((dst, i))
            c.post_msg(dst, self.Message("m", i))
        elif op == "start":
            a.run("c")
        elif op == "startd":
            a.run("d")
        elif op == "pause":
            a.pause_computations("c")
        elif op == "resume":
            a.unpause_computations("c")
        elif op == "step":
            full_msg, t = a._messaging.next_msg(0)
            sender, dest, msg, mtype = full_msg
            if mtype == 19 and dest in self.comps and (self.comps[dest].is_paused or not self.comps[dest].is_running):
                # a message re-injected by start()/resume is buffered a second time (computation paused again
                # -- or started while paused -- before the re-injected messages were drained)
                self.repause_pending = True
            nh = len(self.handled)
            if dest in ("c", "d") and msg.content not in self.seen_recv:
                self.seen_recv.add(msg.content)
                self.first_recv[dest].append(msg.content)
            a._handle_message(sender, dest, msg, t)
            for comp, _, i in self.handled[nh:]:
                if comp not in ("c", "d"):
                    continue
                if i in self.done:
                    self.errors.append(("handled-twice", comp, i))
                elif not self.first_recv[comp] or self.first_recv[comp][0] != i:
                    self.errors.append(("order", comp, i, list(self.first_recv[comp])))
                    if i in self.first_recv[comp]:
                        self.first_recv[comp].remove(i)
                    self.done.add(i)
                else:
                    self.first_recv[comp].pop(0)
                    self.done.add(i)

    # ---- oracle pieces evaluated on every state
    def check_posts(self):
        """posts made by c reach the sender exactly once, in posting order (those flushed so far form a prefix)."""
        out = [(dst, i) for src, dst, i, _ in self.sent if src == "c" and dst in ("t1", "t2")]
        buffered = len(self.comps["c"]._paused_messages_post)
        exp = self.posted[: len(self.posted) - buffered]
        if out != exp:
            return ("posts", out, exp)
        return None

    def check_final(self):
        """after drain: nothing received stays unhandled if the computation runs and is not paused."""
        res = []
        for n in ("c", "d"):
            comp = self.comps[n]
            if comp.is_running and not comp.is_paused and self.first_recv[n]:
                res.append(("lost", n, list(self.first_recv[n])))
        return res

    def canon(self):
        """Canonical state: ids renamed by order of first appearance among live items."""
        ren = {}

        def r(i):
            if i not in ren:
                ren[i] = len(ren)
            return ren[i]

        c, d = self.comps["c"], self.comps["d"]
        q = [(t, src, dst, r(i)) for t, _, src, dst, i in self.queue_snapshot()]
        st = (
            c.is_running, c.is_paused, d.is_running,
            tuple((s, r(m.content)) for s, m, _ in c._paused_messages_recv),
            tuple((s, r(m.content)) for s, m, _ in d._paused_messages_recv),
            tuple((t, r(m.content)) for t, m, _, _ in c._paused_messages_post),
            tuple(q),
            tuple(r(i) for i in self.first_recv["c"]),
            tuple(r(i) for i in self.first_recv["d"]),
            bool(self.errors), self.repause_pending,
            len(self.posted) - len(c._paused_messages_post) == len([1 for s, dd, _, _ in self.sent if s == "c" and dd in ("t1", "t2")]),
        )
        return st


def build(hist):
    w = World()
    for op in hist:
        w.apply(op)
    return w


def drain(w):
    """Default continuation: resume/start nothing; just let the agent loop run to quiescence."""
    guard = 0
    while w.enabled("step"):
        w.apply("step")
        guard += 1
        if guard > 200:
            w.errors.append(("no-quiescence",))
            break


def signature(err, w):
    kind = err[0]
    if kind == "order":
        if w.repause_pending:
            return "order|reinjected-message-rebuffered"
        return "order|comp=" + err[1]
    return kind


def examine(hist, w, part, final=False):
    bad = []
    if w.errors:
        bad.extend(w.errors)
    p = w.check_posts()
    if p:
        bad.append(p)
    if final:
        bad.extend(w.check_final())
    for err in bad:
        part.violation(
            "C19|" + signature(err, w),
            f"history {list(hist)}: {err}; handled={w.handled} sent={[(s, d, i) for s, d, i, _ in w.sent]}",
            {"history": list(hist), "final": final},
        )
    return bool(bad)


def explore(depth, ops, part, first_ops=None):
    """BFS over histories; every state is examined; every state is additionally drained (default
    continuation to quiescence) and examined again."""
    seen = set()
    frontier = collections.deque()
    roots = [[]] if first_ops is None else [list(o) for o in first_ops]
    for h in roots:
        frontier.append(h)
    while frontier:
        hist = frontier.popleft()
        w = build(hist)
        k = w.canon()
        if k in seen:
            part.count("revisits")
            continue
        seen.add(k)
        part.count("states")
        part.maxi("depth", len(hist))
        bad = examine(hist, w, part)
        enabled = [o for o in ops if w.enabled(o)]
        # default continuation: drain to quiescence, then (if needed) start/resume and drain again
        tail = []
        w2 = w
        drain(w2)
        for extra in ("start", "startd", "resume"):
            if w2.enabled(extra) and extra != "pause":
                w2.apply(extra)
                tail.append(extra)
                drain(w2)
        part.count("traces")
        part.count("evaluations")
        part.count("transitions", len(w2.handled) + len(tail))
        examine(list(hist) + ["<drain>"] + tail + ["<drain>"], w2, part, final=True)
        part.outcome((tuple(x[0] for x in w2.handled), tuple((s, d) for s, d, _, _ in w2.sent)))
        if any(o in hist for o in ("pause",)) and (w2.handled or w2.sent):
            part.nontriv(k)
        elif "start" in hist and hist.index("start") > 0:
            part.nontriv(k)
        if part.counters["states"] in (5, 200, 3000):
            part.sample({"history": hist, "handled": w2.handled, "sent": [(s, d, i) for s, d, i, _ in w2.sent]})
        if bad or len(hist) >= depth:
            continue
        for o in enabled:
            part.count("transitions")
            frontier.append(hist + [o])
    return seen


def shard(args):
    first, depth, ops = args
    part = Part()
    explore(depth, ops, part, first_ops=[list(first)])
    return part


def run(ctx):
    ctx.level = "model_checking"
    plans = [(OPS, 6), (CORE_OPS, 9)] if ctx.quick else [(OPS, 8), (CORE_OPS, 12)]
    ctx.rule = (
        f"BFS over all histories over (alphabet, max length) in {plans} (only enabled operations), from the unstarted "
        "state, de-duplicated by canonical state (message ids renamed); every state is examined and then continued by the "
        "default drain/start/resume/drain to quiescence; the search is sharded by first operation so the same canonical state can "
        "be expanded in several shards (counted per shard). Oracle = two Python lists (first-reception order per computation, "
        "posting order). Non-trivial = a pause or a late start occurred and something was handled or sent."
    )
    ctx.assumptions = [
        "The agent loop is played by the harness (one `step` = next_msg + _handle_message of Agent._run); thread interleavings of the real loop are C18's subject.",
        "Only MSG_ALGO messages are posted by the environment; priority inversion by management messages is C18's rule.",
    ]
    jobs = []
    for ops, depth in plans:
        w0 = build([])
        for f in [o for o in ops if w0.enabled(o)]:
            w1 = build([f])
            for g in [o for o in ops if w1.enabled(o)]:
                jobs.append(((f, g), depth, ops))
    ctx.pmap(shard, ctx.rotate(jobs))


def replay(case):
    hist = [o for o in case["history"] if not o.startswith("<")]
    part = Part()
    # re-run: the history up to the drain marker, then the recorded default continuation
    raw = case["history"]
    w = World()
    for o in raw:
        if o == "<drain>":
            drain(w)
        else:
            w.apply(o)
    print("history:", raw)
    print("handled:", w.handled)
    print("sent   :", [(s, d, i) for s, d, i, _ in w.sent])
    print("errors :", w.errors, w.check_posts(), w.check_final() if case.get("final") else "")
    return bool(w.errors or w.check_posts() or (case.get("final") and w.check_final()))
