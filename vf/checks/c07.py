"""C07 Cycle-bounded local search finishes after stop_cycle cycles (netx, see ls_common)."""
from vf.checks import ls_common

PROPS = ["C07"]
RULE = (
    "explicit-state search of the real MGM, MGM2 and DSA (variants A/B/C, both p_modes) computations over a virtual per-channel-FIFO "
    "network, stop_cycle k in {1,2,3}: per instance ALL start orders, delivery interleavings, initial values and random answers, state "
    "caching. Oracle on every transition: no handler raised; on every maximal (quiescent) path: every computation notified finished(), "
    "the first notification happened at cycle counter == k (isolated variables: immediately). evaluations = instances; non-trivial "
    "instance = more than one distinct end observation"
)


def jobs(tier):
    q = tier == "quick"
    out = []
    fams = ["pair", "pair+iso", "chain", "ternary"] + ([] if q else ["triangle"])
    for fam in fams:
        specs = ls_common.instance_family("quick", fam)
        # termination does not depend much on the tables: keep one table set per shape/mode/cost variant
        seen = set()
        for label, spec in specs:
            key = (label, spec["mode"], bool(spec.get("costs")))
            if key in seen:
                continue
            seen.add(key)
            if q and spec.get("costs") and fam not in ("pair", "pair+iso"):
                continue
            n = len(spec["vars"])
            for k in (1, 2, 3):
                if n >= 3 and k == 3 and (q or fam != "chain"):
                    continue
                out.append({"spec": spec, "algo": "mgm", "params": {"stop_cycle": k}, "props": PROPS, "unit_menu": (0.5,), "label": label})
                if n == 2 or k <= 2:
                    # (mgm2 on the ternary constraint with 2 cycles alone has ~240000 states: thorough only)
                    if not (q and n >= 3 and k == 2 and (spec["mode"] == "max" or label.startswith("ternary"))):
                        out.append({"spec": spec, "algo": "mgm2", "params": {"stop_cycle": k}, "props": PROPS, "label": label})
                for variant in ("A", "B", "C"):
                    if q and n >= 3 and (variant != "B" or k == 3):
                        continue
                    for p_mode in ("fixed", "arity"):
                        if p_mode == "arity" and (q or variant != "A"):
                            continue
                        out.append({"spec": spec, "algo": "dsa", "params": {"stop_cycle": k, "variant": variant, "p_mode": p_mode}, "props": PROPS, "label": label})
    # a hub with 3 neighbours (postponed messages from several neighbours at once): fixed initial values keep it small
    for label, spec in ls_common.instance_family("quick", "star4"):
        if q and spec["mode"] == "max":
            continue
        spec = dict(spec, initial={"v0": 0, "v1": 0, "v2": 1, "v3": 0})
        out.append({"spec": spec, "algo": "mgm", "params": {"stop_cycle": 3}, "props": PROPS, "unit_menu": (0.5,), "label": label})
        out.append({"spec": spec, "algo": "dsa", "params": {"stop_cycle": 2, "variant": "B", "p_mode": "fixed"}, "props": PROPS, "label": label})
    return out


def run(ctx):
    ls_common.run_jobs(ctx, jobs(ctx.tier), RULE)


def replay(case):
    return ls_common.replay_case(case, PROPS)
