"""C06 Best-response helpers return exactly the optimal values and cost; DSA only moves to such values.

Bounded-exhaustive enumeration (E2) in two parts, both against the same 10-line brute-force reference
(`ref_costs` / `ref_opt`: plain loops over nested lists, local cost = sum of the constraint tables + own value cost):

* helper part: find_arg_optimal, find_optimal, optimal_cost_value, projection of pydcop.dcop.relations are called on
  every input of the stated families (all cost vectors over a small alphabet that contains 0, ties, negatives, a
  float, 2**31, 2**40, -2**40, +inf, -inf) and must return the full SET of optimal values and the optimal cost;
* DSA part: a real DsaComputation (variants A, B, C) / ADsaComputation (A, B, C) / DsaTutoComputation is built from a
  real DCOP + computation graph, started, and fed every combination of neighbour value messages for two rounds in
  every per-sender-FIFO arrival order; the module's `random` is the enumerating facade, so every answer vector of
  every draw (initial value, probability test, choice among the best values) is executed. Every value passed to
  value_selection after a complete neighbour view must be in the reference optimal set for the neighbour values
  the harness delivered for that round.
"""
import contextlib
import itertools

from vf.core import choice as choice_mod
from vf.core.runner import Part

INF = float("inf")
A9 = [0, 1, -1, 2.5, 2 ** 31, 2 ** 40, -(2 ** 40), INF, -INF]
A6 = [0, 1, -1, 2 ** 31, INF, -INF]
A4 = [0, 1, 2 ** 40, INF]
A3 = [0, 2 ** 31, INF]
A3S = [0, 1, INF]
ALPHA = {"A9": A9, "A6": A6, "A4": A4, "A3": A3, "A3S": A3S, "B01": [0, 1]}

# domain kinds of the variable under test: int / str values, a list order that differs from sorted order, and a
# domain whose values cannot be ordered with each other (0 is also the falsy representative)
DOMS = {"i1": [0], "i2": [0, 1], "i3": [0, 1, 2], "s2": ["a", "b"], "s3": ["c", "a", "b"], "m2": [0, "a"]}
OTHERS = {"y": [0, 1], "z": ["u", "v"]}  # the other variables (neighbours)
SENTINEL = {"min": 2147483647, "max": -2147483648}


# ------------------------------------------------------------------ plain-data helpers

def enc(v):
    """JSON-able form of a cost (or nested table of costs)."""
    if isinstance(v, (list, tuple)):
        return [enc(i) for i in v]
    if isinstance(v, float) and v in (INF, -INF):
        return "inf" if v > 0 else "-inf"
    return v


def dec(v):
    if isinstance(v, (list, tuple)):
        return [dec(i) for i in v]
    if isinstance(v, str):
        return {"inf": INF, "-inf": -INF}[v]
    return v


def isinf(c):
    return isinstance(c, float) and c in (INF, -INF)


def close(a, b):
    """Property-level cost equality: exact for infinities, 1e-9 relative otherwise."""
    try:
        if a == b:
            return True
        a, b = float(a), float(b)
        if a != a or b != b or isinf(a) or isinf(b):
            return False
        return abs(a - b) <= 1e-9 * max(1, abs(a), abs(b))
    except (TypeError, ValueError, OverflowError):
        return False


def magnitude(c):
    if isinf(c):
        return "inf"
    return "beyond-int32" if abs(c) >= 2 ** 31 else "small"


def vectors(alpha, d, lead=None):
    """All vectors of alpha^d, simplest first; `lead` fixes the index of the first component (sharding)."""
    first = alpha if lead is None else [alpha[lead]]
    for f in first:
        for rest in itertools.product(alpha, repeat=d - 1):
            yield [f] + list(rest)


def dom_of(name, dom):
    return dom if name == "x" else OTHERS[name]


# ------------------------------------------------------------------ reference model

def ref_costs(dom, own, cons, assign, with_own=True, with_cons=True):
    """Local cost of every value of x: constraint tables (nested lists in scope order) + own value cost."""
    out = []
    for i, v in enumerate(dom):
        a = dict(assign)
        a["x"] = v
        tot = 0
        if with_cons:
            for c in cons:
                t = c["table"]
                for n in c["scope"]:
                    t = t[dom_of(n, dom).index(a[n])]
                tot = tot + t
        if with_own and own is not None:
            tot = tot + own[i]
        out.append(tot)
    return out


def ref_opt(costs, mode):
    best = min(costs) if mode == "min" else max(costs)
    return best, [i for i, c in enumerate(costs) if c == best]


def undefined(costs):
    return any(c != c for c in costs)  # +inf + -inf


# ------------------------------------------------------------------ real objects

def pyrepr(c):
    if isinf(c):
        return "float('inf')" if c > 0 else "-float('inf')"
    return repr(c)


def build_var(dom, ownkind, own):
    from pydcop.dcop.objects import Variable, VariableWithCostDict, VariableWithCostFunc
    from pydcop.utils.expressionfunction import ExpressionFunction

    dom = list(dom)
    if ownkind == "none":
        return Variable("x", dom)
    if ownkind == "dict":
        return VariableWithCostDict("x", dom, dict(zip(dom, own)))
    if ownkind == "dictp":  # values missing from the cost dict cost 0 (documented fall-back of cost_for_val)
        return VariableWithCostDict("x", dom, {v: c for v, c in zip(dom, own) if c != 0})
    if ownkind == "func":
        costs = dict(zip(dom, own))
        return VariableWithCostFunc("x", dom, lambda val: costs[val])
    if ownkind == "expr":
        body = ", ".join(f"{v!r}: {pyrepr(c)}" for v, c in zip(dom, own))
        return VariableWithCostFunc("x", dom, ExpressionFunction("{" + body + "}[x]"))
    raise ValueError(ownkind)


def build_others():
    from pydcop.dcop.objects import Variable

    return {n: Variable(n, list(d)) for n, d in OTHERS.items()}


def table_for(scope, dom, fn):
    """Nested list in scope order; fn(dict name -> value) gives the cell."""
    def rec(i, asg):
        if i == len(scope):
            return fn(asg)
        out = []
        for v in dom_of(scope[i], dom):
            asg[scope[i]] = v
            out.append(rec(i + 1, asg))
        return out

    return rec(0, {})


def column_table(scope, dom, assign, col):
    """Table whose column selected by `assign` is `col` (indexed like dom); every other cell is a decoy 11+2i."""
    def cell(asg):
        i = dom.index(asg["x"])
        if all(asg[n] == assign[n] for n in scope if n != "x"):
            return col[i]
        return 11 + 2 * i

    return table_for(scope, dom, cell)


def lookup(table, scope, dom, kw):
    t = table
    for n in scope:
        t = t[dom_of(n, dom).index(kw[n])]
    return t


def build_relation(kind, name, scope, table, variables, dom):
    import numpy as np
    from pydcop.dcop.relations import NAryFunctionRelation, NAryMatrixRelation, UnaryFunctionRelation

    vs = [variables[n] for n in scope]
    if kind == "matrix":
        return NAryMatrixRelation(vs, np.array(table), name=name)
    if kind == "func":
        return NAryFunctionRelation(lambda **kw: lookup(table, scope, dom, kw), vs, name=name, f_kwargs=True)
    if kind == "unaryfunc":
        return UnaryFunctionRelation(name, vs[0], lambda v: table[dom.index(v)])
    raise ValueError(kind)


def install_facades():
    import pydcop.algorithms.adsa as adsa
    import pydcop.algorithms.dsa as dsa
    import pydcop.algorithms.dsatuto as dsatuto
    import pydcop.dcop.relations as relmod
    import pydcop.infrastructure.computations as compmod

    for m in (relmod, compmod, dsa, adsa, dsatuto):
        choice_mod.install(m)
    return {"dsa": dsa, "adsa": adsa, "dsatuto": dsatuto}


def all_answers(run):
    """Call run(prefix) -> controller for every answer vector of the draws made by the code under test."""
    prefix = []
    while True:
        ctrl = choice_mod.set_controller(choice_mod.Controller(prefix))
        result = run()
        yield list(ctrl.taken), result
        taken, arity = ctrl.taken, ctrl.arity
        i = len(taken) - 1
        while i >= 0 and taken[i] + 1 >= arity[i]:
            i -= 1
        if i < 0:
            return
        prefix = taken[:i] + [taken[i] + 1]


# ------------------------------------------------------------------ helper part: one judged call each

def fmt_cons(cons):
    return [f"{c.get('kind', 'matrix')}{tuple(c['scope'])}={enc(c['table'])}" for c in cons]


def generic_key(helper, got_vals, exp_vals, cost_ok, mode, opt):
    got, exp = set(map(repr, got_vals)), set(map(repr, exp_vals))
    if got == exp:
        what = "wrong-cost" if not cost_ok else "ok"
    elif got and got < exp:
        what = "optimal-values-missing"
    elif got > exp:
        what = "non-optimal-value-returned"
    else:
        what = "wrong-values"
    return f"{helper}|{what}|mode={mode}|opt={magnitude(opt)}"


def call(fn):
    try:
        return ("ok", fn())
    except Exception as e:  # noqa - the exception is the observation
        return ("exc", e)


def judge_find_optimal(case, part, xvar=None, rels=None):
    """case: dom, ownkind, own, cons[{scope,kind,table}], assign, mode (decoded costs)."""
    from pydcop.dcop.relations import find_optimal

    dom, own, cons, assign, mode = case["dom"], case["own"], case["cons"], case["assign"], case["mode"]
    costs = ref_costs(dom, own, cons, assign)
    if undefined(costs):
        part.count("skipped_undefined_sum")
        return None
    if xvar is None:
        xvar = build_var(dom, case["ownkind"], own)
        variables = dict(build_others(), x=xvar)
        rels = [build_relation(c.get("kind", "matrix"), f"c{i}", c["scope"], c["table"], variables, dom) for i, c in enumerate(cons)]
    opt, idx = ref_opt(costs, mode)
    exp_vals = [dom[i] for i in idx]
    tag, res = call(lambda: find_optimal(xvar, dict(assign), rels, mode))
    part.count("evaluations")
    part.count("find_optimal_calls")
    token = ("find_optimal", case["domkind"], case["ownkind"], len(cons), mode, tuple(idx), repr(opt))
    if len(idx) < len(dom):
        part.nontriv(token)
    desc = f"find_optimal(x dom={dom} own cost {case['ownkind']}:{enc(own)}, assignment={assign}, constraints {fmt_cons(cons)}, {mode!r})"
    exp_txt = f"expected values {exp_vals} cost {enc(opt)} (local costs {enc(costs)})"
    rcase = dict(case, part="helper", helper="find_optimal", own=enc(own), cons=[dict(c, table=enc(c["table"])) for c in cons])
    if tag == "exc":
        part.outcome(("find_optimal", type(res).__name__))
        worst = INF if mode == "min" else -INF
        first = {ref_costs(dom, own, cons, assign, with_own=w)[0] for w in (True, False)}
        trig = "first-value-cost-is-the-initial-bound" if isinstance(res, AttributeError) and worst in first else "other"
        part.violation(f"find_optimal|raised|{type(res).__name__}|{trig}", f"{desc} raised {type(res).__name__}: {res}; {exp_txt}", rcase)
        return None
    try:
        vals, cost = res
        vals = list(vals)
    except Exception:  # noqa
        part.violation("find_optimal|malformed-result", f"{desc} returned {res!r}; {exp_txt}", rcase)
        return None
    part.outcome(("find_optimal", tuple(dom.index(v) if v in dom else repr(v) for v in vals), repr(cost)))
    cost_ok = close(cost, opt)
    if set(map(repr, vals)) == set(map(repr, exp_vals)) and cost_ok:
        return res
    key = None
    if own is not None:
        c0 = ref_costs(dom, own, cons, assign, with_own=False)
        o0, i0 = ref_opt(c0, mode)
        if set(map(repr, vals)) == {repr(dom[i]) for i in i0} and close(cost, o0):
            key = "find_optimal|own-cost-ignored"
    if key is None:
        key = generic_key("find_optimal", vals, exp_vals, cost_ok, mode, opt)
    part.violation(key, f"{desc} returned ({vals}, {enc(cost)}); {exp_txt}", rcase)
    return res


def judge_find_arg_optimal(case, part, xvar=None):
    """case: dom, relkind, col, mode."""
    from pydcop.dcop.relations import find_arg_optimal

    dom, col, mode = case["dom"], case["col"], case["mode"]
    if xvar is None:
        xvar = build_var(dom, "none", None)
    rel = build_relation(case["relkind"], "u", ["x"], col, {"x": xvar}, dom)
    opt, idx = ref_opt(col, mode)
    exp_vals = [dom[i] for i in idx]
    tag, res = call(lambda: find_arg_optimal(xvar, rel, mode))
    part.count("evaluations")
    part.count("find_arg_optimal_calls")
    if len(idx) < len(dom):
        part.nontriv(("find_arg_optimal", case["domkind"], case["relkind"], mode, tuple(idx), repr(opt)))
    desc = f"find_arg_optimal(x dom={dom}, {case['relkind']} relation with costs {enc(col)}, {mode!r})"
    exp_txt = f"expected values {exp_vals} cost {enc(opt)}"
    rcase = dict(case, part="helper", helper="find_arg_optimal", col=enc(col))
    if tag == "exc":
        part.outcome(("find_arg_optimal", type(res).__name__))
        part.violation(f"find_arg_optimal|raised|{type(res).__name__}", f"{desc} raised {type(res).__name__}: {res}; {exp_txt}", rcase)
        return
    try:
        vals, cost = res
        vals = list(vals)
    except Exception:  # noqa
        part.violation("find_arg_optimal|malformed-result", f"{desc} returned {res!r}; {exp_txt}", rcase)
        return
    part.outcome(("find_arg_optimal", tuple(dom.index(v) if v in dom else repr(v) for v in vals), repr(cost)))
    cost_ok = close(cost, opt)
    if set(map(repr, vals)) == set(map(repr, exp_vals)) and cost_ok:
        return
    if vals == [] and not isinstance(cost, float) and cost == SENTINEL[mode]:
        key = "find_arg_optimal|int32-sentinel"  # no cost beats the int32 bound the search starts from
    else:
        key = generic_key("find_arg_optimal", vals, exp_vals, cost_ok, mode, opt)
    part.violation(key, f"{desc} returned ({vals}, {enc(cost)}); {exp_txt}", rcase)


def judge_optimal_cost_value(case, part):
    """case: dom, ownkind, own, mode. One call per answer vector of the helper's own random draws."""
    from pydcop.dcop.relations import optimal_cost_value

    dom, own, mode = case["dom"], case["own"], case["mode"]
    xvar = build_var(dom, case["ownkind"], own)
    costs = ref_costs(dom, own, [], {})
    opt, idx = ref_opt(costs, mode)
    exp_vals = [dom[i] for i in idx]
    desc = f"optimal_cost_value(x dom={dom} own cost {case['ownkind']}:{enc(own)}, {mode!r})"
    exp_txt = f"expected a value among {exp_vals} with cost {enc(opt)}"
    rcase = dict(case, part="helper", helper="optimal_cost_value", own=enc(own))
    for answers, (tag, res) in all_answers(lambda: call(lambda: optimal_cost_value(xvar, mode))):
        part.count("evaluations")
        part.count("optimal_cost_value_calls")
        if len(idx) < len(dom):
            part.nontriv(("optimal_cost_value", case["domkind"], case["ownkind"], mode, tuple(idx), repr(opt)))
        if tag == "exc":
            part.outcome(("optimal_cost_value", type(res).__name__))
            tie = len(set(map(repr, costs))) < len(costs) and len({type(v) for v in dom}) > 1
            trig = "cost-tie-compares-unorderable-domain-values" if isinstance(res, TypeError) and tie else "other"
            part.violation(f"optimal_cost_value|raised|{type(res).__name__}|{trig}", f"{desc} raised {type(res).__name__}: {res}; {exp_txt}", rcase)
            continue
        try:
            val, cost = res
        except Exception:  # noqa
            part.violation("optimal_cost_value|malformed-result", f"{desc} returned {res!r}; {exp_txt}", rcase)
            continue
        part.outcome(("optimal_cost_value", repr(val), repr(cost)))
        # a variable without cost function: the documented answer is (any value, None); 0 is accepted as well
        cost_ok = close(cost, opt) or (case["ownkind"] == "none" and cost is None)
        val_ok = repr(val) in set(map(repr, exp_vals))
        if val_ok and cost_ok:
            continue
        what = "non-optimal-value" if not val_ok else "wrong-cost"
        if val_ok is False and repr(val) not in set(map(repr, dom)):
            what = "value-not-in-domain"
        part.violation(f"optimal_cost_value|{what}|mode={mode}|opt={magnitude(opt)}", f"{desc} returned ({val!r}, {enc(cost)}); {exp_txt}", rcase)


def judge_projection(case, part):
    """case: dom, scope, relkind, table, mode. Projects x out of one relation."""
    from pydcop.dcop.relations import projection

    dom, scope, table, mode = case["dom"], case["scope"], case["table"], case["mode"]
    xvar = build_var(dom, "none", None)
    variables = dict(build_others(), x=xvar)
    rel = build_relation(case["relkind"], "r", scope, table, variables, dom)
    rest = [n for n in scope if n != "x"]
    desc = f"projection({case['relkind']} relation over {scope} = {enc(table)}, x dom={dom}, {mode!r})"
    rcase = dict(case, part="helper", helper="projection", table=enc(table))
    tag, res = call(lambda: projection(rel, xvar, mode))
    part.count("evaluations")
    part.count("projection_calls")
    exp = {}
    for vals in itertools.product(*[OTHERS[n] for n in rest]):
        assign = dict(zip(rest, vals))
        costs = ref_costs(dom, None, [{"scope": scope, "table": table}], assign)
        exp[vals] = (ref_opt(costs, mode)[0], costs)
    if any(len(set(map(repr, costs))) > 1 for _, costs in exp.values()):
        part.nontriv(("projection", case["domkind"], tuple(scope), case["relkind"], mode, repr(sorted(repr(o) for o, _ in exp.values()))))
    if tag == "exc":
        part.outcome(("projection", type(res).__name__))
        part.violation(f"projection|raised|{type(res).__name__}", f"{desc} raised {type(res).__name__}: {res}", rcase)
        return
    try:
        names = [v.name for v in res.dimensions]
    except Exception:  # noqa
        part.violation("projection|malformed-result", f"{desc} returned {res!r}", rcase)
        return
    if names != rest:
        part.violation("projection|wrong-dimensions", f"{desc} has dimensions {names}, expected {rest}", rcase)
        return
    observed = []
    for vals, (opt, costs) in exp.items():
        tag2, got = call(lambda: res(**dict(zip(rest, vals))) if rest else res())
        if tag2 == "ok":
            try:
                got = got.item() if hasattr(got, "item") else got
            except Exception:  # noqa
                pass
        observed.append(repr(got))
        if tag2 == "exc":
            part.violation(f"projection|result-not-evaluable|{type(got).__name__}", f"{desc}: evaluating the result at {dict(zip(rest, vals))} raised {got}", rcase)
            continue
        if close(got, opt):
            continue
        beyond = all(c > SENTINEL["min"] for c in costs) if mode == "min" else all(c < SENTINEL["max"] for c in costs)
        if beyond and got == SENTINEL[mode]:
            key = "projection|int32-sentinel"
        else:
            key = f"projection|wrong-value|mode={mode}|opt={magnitude(opt)}"
        part.violation(key, f"{desc} gives {enc(got)} at {dict(zip(rest, vals))}, expected {enc(opt)} (costs over x: {enc(costs)})", rcase)
    part.outcome(("projection", tuple(observed)))


# ------------------------------------------------------------------ helper part: families (jobs)

# (scope, assignment of the others) of a single constraint: x alone / first / last / in the middle; 0 is falsy
SHAPES1 = [
    (["x"], {}),
    (["x", "y"], {"y": 0}),
    (["x", "y"], {"y": 1}),
    (["y", "x"], {"y": 1}),
    (["y", "x", "z"], {"y": 0, "z": "v"}),
    (["y", "x", "z"], {"y": 1, "z": "u"}),
    (["x", "y", "z"], {"y": 1, "z": "v"}),
]
SHAPES_OWN = [[], [SHAPES1[2]], [SHAPES1[5]]]  # 0 or 1 constraint next to an own cost
SHAPES2 = [  # two constraints (scopes, joint assignment)
    ([["x"], ["x", "y"]], {"y": 1}),
    ([["x", "y"], ["z", "x"]], {"y": 0, "z": "v"}),
    ([["x", "y"], ["y", "x"]], {"y": 1}),
    ([["y", "x", "z"], ["x", "z"]], {"y": 1, "z": "u"}),
]


def helper_jobs(tier):
    q = tier == "quick"
    jobs = []
    for mode in ("min", "max"):
        for dk in DOMS:
            for rk in ("matrix", "unaryfunc", "func"):
                jobs.append({"fam": "FA", "dom": dk, "relkind": rk, "mode": mode, "size": 9 ** len(DOMS[dk])})
            for ok in ("none", "dict", "dictp", "func", "expr"):
                jobs.append({"fam": "FV", "dom": dk, "ownkind": ok, "mode": mode, "size": 9 ** len(DOMS[dk])})
        # FO1: one constraint, no own cost, full alphabet
        for dk in ("i1", "i2", "i3", "s2", "s3"):
            for rk in ("matrix", "func"):
                jobs.append({"fam": "FO", "dom": dk, "ownkind": "none", "ownA": None, "colA": "A9", "shapes": "one", "relkind": rk,
                             "mode": mode, "lead": None, "size": 7 * 9 ** len(DOMS[dk])})
        jobs.append({"fam": "FO", "dom": "m2", "ownkind": "none", "ownA": None, "colA": "A9", "shapes": "one", "relkind": "matrix",
                     "mode": mode, "lead": None, "size": 7 * 81})
        # FO2: own cost x (0 or 1 constraint)
        for ok in ("dict", "dictp", "func", "expr"):
            for dk in ("i1", "i2", "s2"):
                for lead in range(9):
                    jobs.append({"fam": "FO", "dom": dk, "ownkind": ok, "ownA": "A9", "colA": "A9", "shapes": "own", "relkind": "matrix",
                                 "mode": mode, "lead": lead, "size": 9 ** (len(DOMS[dk]) - 1) * (1 + 2 * 9 ** len(DOMS[dk]))})
            if not q:
                for dk in ("i3", "s3"):
                    for lead in range(6):
                        jobs.append({"fam": "FO", "dom": dk, "ownkind": ok, "ownA": "A6", "colA": "A6", "shapes": "own", "relkind": "matrix",
                                     "mode": mode, "lead": lead, "size": 36 * (1 + 2 * 216)})
        if not q:
            for lead in range(9):  # full alphabet on both the own cost and the constraint column, 3 values
                jobs.append({"fam": "FO", "dom": "i3", "ownkind": "dict", "ownA": "A9", "colA": "A9", "shapes": "own1", "relkind": "matrix",
                             "mode": mode, "lead": lead, "size": 81 * 729})
        # FO3: two constraints, without / with own cost
        for ok, oa in (("none", None), ("dict", "A6" if q else "A9")):
            ca = "A6" if q else "A9"
            n = len(ALPHA[ca])
            for lead in range(n if ok == "none" else len(ALPHA[oa])):
                jobs.append({"fam": "FO", "dom": "i2", "ownkind": ok, "ownA": oa, "colA": ca, "shapes": "two", "relkind": "matrix",
                             "mode": mode, "lead": lead, "size": 4 * n ** 3 * (1 if ok == "none" else len(ALPHA[oa]))})
        if not q:
            for lead in range(6):
                jobs.append({"fam": "FO", "dom": "s3", "ownkind": "none", "ownA": None, "colA": "A6", "shapes": "two", "relkind": "matrix",
                             "mode": mode, "lead": lead, "size": 4 * 36 * 216})
        # FP: projection
        for dk in ("i1", "i2", "i3", "s3"):
            jobs.append({"fam": "FP", "dom": dk, "scope": ["x"], "relkind": "matrix", "A": "A9", "mode": mode, "lead": None, "size": 9 ** len(DOMS[dk])})
        for scope in (["x", "y"], ["y", "x"]):
            for lead in range(9):
                jobs.append({"fam": "FP", "dom": "i2", "scope": scope, "relkind": "matrix", "A": "A9", "mode": mode, "lead": lead, "size": 729})
            jobs.append({"fam": "FP", "dom": "i2", "scope": scope, "relkind": "func", "A": "A4", "mode": mode, "lead": None, "size": 256})
            jobs.append({"fam": "FP", "dom": "s3", "scope": scope, "relkind": "matrix", "A": "A3" if q else "A6", "mode": mode, "lead": None,
                         "size": (3 if q else 6) ** 6})
        for scope in (["y", "x", "z"], ["x", "y", "z"]):
            for lead in range(3 if q else 4):
                jobs.append({"fam": "FP", "dom": "i2", "scope": scope, "relkind": "matrix", "A": "A3" if q else "A4", "mode": mode, "lead": lead,
                             "size": (3 if q else 4) ** 7})
    return jobs


def cells_of(scope, dom):
    n = 1
    for s in scope:
        n *= len(dom_of(s, dom))
    return n


def nest(flat, scope, dom):
    it = iter(flat)
    return table_for(scope, dom, lambda asg: next(it))


def run_helper_job(job, part):
    fam, dk, mode = job["fam"], job["dom"], job["mode"]
    dom = DOMS[dk]
    d = len(dom)
    if fam == "FA":
        xvar = build_var(dom, "none", None)
        for i, col in enumerate(vectors(A9, d)):
            case = {"domkind": dk, "dom": dom, "relkind": job["relkind"], "col": col, "mode": mode}
            judge_find_arg_optimal(case, part, xvar)
            if i == 4 and dk == "i2" and job["relkind"] == "matrix":
                part.sample({"find_arg_optimal": enc(case)})
    elif fam == "FV":
        owns = [None] if job["ownkind"] == "none" else vectors(A9, d)
        for own in owns:
            judge_optimal_cost_value({"domkind": dk, "dom": dom, "ownkind": job["ownkind"], "own": own, "mode": mode}, part)
    elif fam == "FO":
        others = build_others()
        ok = job["ownkind"]
        shapes = job["shapes"]
        lead = job["lead"]
        owns = [None] if ok == "none" else vectors(ALPHA[job["ownA"]], d, lead)
        col_lead = lead if ok == "none" else None
        colA = ALPHA[job["colA"]]
        n = 0
        for own in owns:
            xvar = build_var(dom, ok, own)
            variables = dict(others, x=xvar)
            if shapes == "one":
                plans = [([sc], asg) for sc, asg in SHAPES1]
            elif shapes == "own":
                plans = [([sc for sc, _ in sh], (sh[0][1] if sh else {})) for sh in SHAPES_OWN]
            elif shapes == "own1":
                plans = [([SHAPES1[2][0]], SHAPES1[2][1])]
            else:
                plans = SHAPES2
            for scopes, assign in plans:
                k = len(scopes)
                col_sets = [vectors(colA, d, col_lead if j == 0 else None) for j in range(k)]
                for cols in itertools.product(*[list(cs) for cs in col_sets]):
                    cons = [{"scope": sc, "kind": job["relkind"], "table": column_table(sc, dom, assign, col)} for sc, col in zip(scopes, cols)]
                    rels = [build_relation(c["kind"], f"c{i}", c["scope"], c["table"], variables, dom) for i, c in enumerate(cons)]
                    case = {"domkind": dk, "dom": dom, "ownkind": ok, "own": own, "cons": cons, "assign": assign, "mode": mode}
                    judge_find_optimal(case, part, xvar, rels)
                    n += 1
                    if n == 50 and lead in (None, 1) and dk == "i2":
                        part.sample({"find_optimal": dict(case, own=enc(own), cons=fmt_cons(cons))}, cap=1)
    elif fam == "FP":
        scope = job["scope"]
        ncell = cells_of(scope, dom)
        for flat in vectors(ALPHA[job["A"]], ncell, job["lead"]):
            judge_projection({"domkind": dk, "dom": dom, "scope": scope, "relkind": job["relkind"], "table": nest(flat, scope, dom), "mode": mode}, part)
    else:
        raise ValueError(fam)


# ------------------------------------------------------------------ DSA part

ALGOS = [("dsa", "A"), ("dsa", "B"), ("dsa", "C"), ("adsa", "A"), ("adsa", "B"), ("adsa", "C"), ("dsatuto", None)]
OWN2 = [["none", None], ["dict", [0, 1]], ["dict", [3, 0]], ["expr", [1, 0]]]
BIN4 = [[[0, 1], [1, 0]], [[0, 2], [5, 1]], [[2, 2], [2, 2]], [[1, 5], [0, 2]]]
BIN6 = [[[0, 1], [1, 0]], [[1, 0], [0, 1]], [[0, 2], [5, 1]], [[2, 2], [2, 2]], [[5, 1], [1, 0]], [[1, 5], [0, 2]]]


class _Null:
    def write(self, *_):
        pass

    def flush(self):
        pass


NULL = _Null()


class Periodic:
    """Stands for the agent's periodic-action service: the harness fires the registered callbacks itself."""

    def __init__(self):
        self.actions = []
        self.count = 0

    def set_periodic_action(self, period, cb):
        self.count += 1
        h = (self.count, period)
        self.actions.append([h, cb])
        return h

    def remove_periodic_action(self, handle):
        self.actions = [a for a in self.actions if a[0] != handle]

    def fire(self):
        for _, cb in list(self.actions):
            cb()


class Harness:
    """One world = variable x with its constraints and neighbours, one algorithm; real objects built once."""

    def __init__(self, world):
        from pydcop.algorithms import AlgorithmDef
        from pydcop.computations_graph import constraints_hypergraph as chg
        from pydcop.dcop.dcop import DCOP

        self.w = world
        self.mods = install_facades()
        self.algo = world["algo"]
        self.mod = self.mods[self.algo]
        self.dom = list(world["dom"])
        self.own = world["own"]
        self.cons = world["cons"]
        self.mode = world["mode"]
        xvar = build_var(self.dom, world["ownkind"], self.own)
        variables = dict(build_others(), x=xvar)
        dcop = DCOP("c06", objective=self.mode)
        dcop.add_variable(xvar)
        for i, c in enumerate(self.cons):
            dcop.add_constraint(build_relation("matrix", f"c{i}", c["scope"], c["table"], variables, self.dom))
        graph = chg.build_computation_graph(dcop)
        self.node = [n for n in graph.nodes if n.name == "x"][0]
        self.nbrs = sorted({n for c in self.cons for n in c["scope"] if n != "x"})
        if sorted(self.node.neighbors) != self.nbrs:
            raise RuntimeError(f"computation graph neighbours {self.node.neighbors} != {self.nbrs}")
        params = {"variant": world["variant"]} if world.get("variant") else {}
        self.algo_def = AlgorithmDef.build_with_default_param(self.algo, params, mode=self.mode)

    def message(self, value, index):
        if self.algo == "dsa":
            return self.mod.DsaMessage(value)
        if self.algo == "adsa":
            return self.mod.ADsaMessage(value)
        m = self.mod.DsaMessage(value)
        m.cycle_id = index  # what the sender's SynchronousComputationMixin.post_msg stamps on its k-th message
        return m

    def execute(self, script):
        """Run one script under the current choice controller. Returns (selections, exception or None).
        selections: (phase, value, neighbour view the harness delivered for the round, previous view)."""
        from pydcop.algorithms import ComputationDef

        comp = self.mod.build_computation(ComputationDef(self.node, self.algo_def))
        comp.message_sender = lambda *a: None
        periodic = Periodic()
        if self.algo == "adsa":
            comp.periodic_action_handler = periodic
        sel = []
        st = {"phase": "start", "view": {} if not self.nbrs else None, "prev": None}
        orig = comp.value_selection

        def hook(val, cost=0):
            sel.append((st["phase"], val, st["view"], st["prev"]))
            return orig(val, cost)

        comp.value_selection = hook
        received = {n: [] for n in self.nbrs}
        try:
            comp.start()
            if self.algo == "adsa":
                periodic.fire()  # the delayed start fires once
            done = 0
            for k, op in enumerate(script):
                st["phase"] = f"{k}:{op[0]}"
                if op[0] == "msg":
                    _, n, v = op
                    received[n].append(v)
                    if self.algo != "adsa":
                        rounds = min(len(r) for r in received.values())
                        if rounds > done:
                            st["prev"] = st["view"]
                            st["view"] = {m: received[m][rounds - 1] for m in self.nbrs}
                            done = rounds
                    comp.on_message(n, self.message(v, len(received[n]) - 1), 0)
                else:  # tick (adsa): the view is the latest value of every neighbour, if all have spoken
                    if all(received.values()):
                        view = {m: received[m][-1] for m in self.nbrs}
                        if view != st["view"]:
                            st["prev"], st["view"] = st["view"], view
                    with contextlib.redirect_stdout(NULL):  # adsa prints while waiting for neighbours
                        periodic.fire()
            return sel, None
        except Exception as e:  # noqa - observation
            return sel, e


def scripts_for(algo, nbrs):
    if not nbrs:
        return [[]]
    out = []
    doms = [OTHERS[n] for n in nbrs]
    if algo == "adsa":
        for first in itertools.product(*doms):
            for order in itertools.permutations(range(len(nbrs))):
                head = [("tick",)]
                for j, i in enumerate(order):
                    head.append(("msg", nbrs[i], first[i]))
                    if j < len(nbrs) - 1:
                        head.append(("tick",))  # incomplete view: must not select anything
                head.append(("tick",))
                for second in itertools.product(*[[None] + list(dm) for dm in doms]):
                    tail = [("msg", n, v) for n, v in zip(nbrs, second) if v is not None]
                    out.append(head + tail + [("tick",)])
        return out
    # dsa / dsatuto: two values per neighbour, every arrival order that keeps each sender's order
    for vals in itertools.product(*[list(itertools.product(dm, repeat=2)) for dm in doms]):
        seqs = [[("msg", n, v) for v in pair] for n, pair in zip(nbrs, vals)]
        if len(seqs) == 1:
            out.append(seqs[0])
            continue
        a, b = seqs
        for pos in itertools.combinations(range(4), 2):
            merged, ia, ib = [], iter(a), iter(b)
            for i in range(4):
                merged.append(next(ia) if i in pos else next(ib))
            out.append(merged)
    return out


def judge_run(h, script, answers, sel, exc, part):
    w = h.w
    algo = h.algo
    checked = 0
    for phase, val, view, prev in sel:
        if phase == "start" and h.nbrs:
            continue  # initial random value: not a best-response move
        label = f"{algo}" + (f"-{w['variant']}" if w.get("variant") else "")
        rcase = {"part": "dsa", "world": dict(w, own=enc(w["own"]), cons=[dict(c, table=enc(c["table"])) for c in w["cons"]]),
                 "script": [list(o) for o in script], "answers": list(answers)}
        desc = (f"{label} mode={h.mode} x dom={h.dom} own cost {w['ownkind']}:{enc(h.own)} constraints {fmt_cons(h.cons)}, "
                f"script {[list(o) for o in script]} draws {answers}: at step {phase}")
        iso = "|isolated" if not h.nbrs else ""
        if view is None:
            part.violation(f"dsa-move|{algo}|selected-before-complete-view", f"{desc} value_selection({val!r}) without a complete neighbour view", rcase)
            continue
        costs = ref_costs(h.dom, h.own, h.cons, view)
        if undefined(costs):
            continue
        checked += 1
        opt, idx = ref_opt(costs, h.mode)
        optvals = [h.dom[i] for i in idx]
        if len(idx) < len(h.dom):
            part.nontriv(("dsa", algo, w.get("variant"), h.mode, w["fam"], w["ownkind"], repr(enc(h.own)), repr(enc([c["table"] for c in h.cons])), repr(view)))
        part.outcome(("dsa", algo, repr(val), tuple(idx), len(h.dom)))
        if val in optvals:
            continue
        def opt_without(**kw):
            c = ref_costs(h.dom, h.own, h.cons, view, **kw)
            return ref_opt(c, h.mode)[0], [h.dom[i] for i in ref_opt(c, h.mode)[1]]

        own_opt, own_best = opt_without(with_cons=False)
        if not h.nbrs and val == own_opt and val not in own_best:
            feat = "optimal-cost-selected-as-value"  # (value, cost) of optimal_cost_value taken in the wrong order
        elif val not in h.dom:
            feat = "value-not-in-domain"
        elif h.own is not None and val in opt_without(with_own=False)[1]:
            feat = "own-cost-ignored"
        elif not h.nbrs and h.cons and val in own_best:
            feat = "own-constraints-ignored"
        elif prev is not None and val in [h.dom[i] for i in ref_opt(ref_costs(h.dom, h.own, h.cons, prev), h.mode)[1]]:
            feat = "stale-view"
        else:
            feat = "non-optimal"
        part.violation(f"dsa-move|{algo}|{feat}{iso}",
                       f"{desc} value_selection({val!r}) with neighbour values {view}: optimal values are {optvals} (local costs {enc(costs)})", rcase)
    part.count("dsa_selections_checked", checked)
    if exc is not None:
        part.count("dsa_runs_ended_by_exception")
        part.outcome(("dsa-exc", algo, type(exc).__name__))
        note = f"observation (not a C06 violation): a {algo} handler raised {type(exc).__name__}: {exc}"
        if note not in part.notes:
            part.notes.append(note)
    return checked


def explore_world(world, part):
    h = Harness(world)
    runs = 0
    for script in scripts_for(h.algo, h.nbrs):
        for answers, (sel, exc) in all_answers(lambda: h.execute(script)):
            runs += 1
            part.count("evaluations")
            part.count("dsa_runs")
            judge_run(h, script, answers, sel, exc, part)
    part.count("dsa_worlds")
    part.maxi("runs_per_world", runs)
    return runs


def t01_tables(scope, dom):
    n = cells_of(scope, dom)
    return [nest(list(flat), scope, dom) for flat in itertools.product([0, 1], repeat=n)]


def dsa_world_family(fam, tier):
    """Worlds of a family, without algorithm/variant/mode (added by the jobs)."""
    q = tier == "quick"
    out = []

    def add(dk, owns, cons):
        for ok, own in owns:
            out.append({"fam": fam, "domkind": dk, "dom": DOMS[dk], "ownkind": ok, "own": own, "cons": cons})

    if fam == "D1":  # one neighbour, one binary constraint, all tables over the alphabet
        scope = ["x", "y"]
        for flat in itertools.product(A4 if q else A6, repeat=4):
            add("i2", OWN2, [{"scope": scope, "table": nest(list(flat), scope, DOMS["i2"])}])
        if not q:
            for sc in (["x", "y"], ["y", "x"]):
                for flat in itertools.product(A3S, repeat=6):
                    add("s3", [["none", None], ["dict", [0, 1, 3]]], [{"scope": sc, "table": nest(list(flat), sc, DOMS["s3"])}])
    elif fam == "D2":  # two neighbours, two binary constraints
        menu = BIN4 if q else BIN6
        for t1 in menu:
            for t2 in menu:
                add("i2", OWN2[:2] if q else OWN2, [{"scope": ["x", "y"], "table": t1}, {"scope": ["z", "x"], "table": t2}])
    elif fam == "D3":  # two neighbours, one ternary constraint, 0/1 tables
        scope = ["y", "x", "z"]
        tabs = t01_tables(scope, DOMS["i2"])
        if q:
            tabs = [t for i, t in enumerate(tabs) if i % 16 == 5]
        for t in tabs:
            add("i2", OWN2[:2], [{"scope": scope, "table": t}])
    elif fam == "D4":  # one neighbour, binary + unary constraint on x
        for t in BIN4:
            for u in itertools.product(A4, repeat=2):
                add("i2", OWN2[:2], [{"scope": ["x", "y"], "table": t}, {"scope": ["x"], "table": list(u)}])
    elif fam == "D0":  # no neighbour: the value is chosen at start
        for dk in ("i2", "s2", "s3"):
            d = len(DOMS[dk])
            owns = [["none", None]] + [["dict", list(o)] for o in itertools.product([0, 1, 3], repeat=d)]
            add(dk, owns, [])
            for u in itertools.product(A4, repeat=d):
                add(dk, owns, [{"scope": ["x"], "table": list(u)}])
    return out


def dsa_jobs(tier):
    jobs = []
    for fam, nblocks in (("D1", 8), ("D2", 4), ("D3", 4), ("D4", 1), ("D0", 1)):
        n = len(dsa_world_family(fam, tier))
        for algo, variant in ALGOS:
            if fam == "D0" and (algo == "dsatuto" or variant in ("A", "C")):
                continue  # dsatuto never evaluates without neighbours; the variant plays no role at start
            for mode in ("min", "max"):
                for b in range(nblocks):
                    jobs.append({"fam": fam, "algo": algo, "variant": variant, "mode": mode, "block": b, "nblocks": nblocks,
                                 "size": (n // nblocks) * {"D1": 40, "D2": 1500, "D3": 1500, "D4": 40, "D0": 2}[fam] * (2 if algo == "adsa" else 1)})
    return jobs


def run_dsa_job(job, part, tier):
    worlds = dsa_world_family(job["fam"], tier)
    for i, w in enumerate(worlds):
        if i % job["nblocks"] != job["block"]:
            continue
        world = dict(w, algo=job["algo"], variant=job["variant"], mode=job["mode"])
        explore_world(world, part)
        if i == 7 and job["algo"] == "dsa" and job["variant"] == "B" and job["mode"] == "min":
            h = Harness(world)
            script = scripts_for(h.algo, h.nbrs)[-1]
            choice_mod.set_controller(choice_mod.Controller([1]))
            sel, exc = h.execute(script)
            part.sample({"dsa_world": dict(world, own=enc(world["own"]), cons=fmt_cons(world["cons"])), "script": script,
                         "selections": [(p, v, vw) for p, v, vw, _ in sel]}, cap=1)


# ------------------------------------------------------------------ module API

def shard(item):
    job, tier = item
    part = Part()
    install_facades()
    if job["fam"].startswith("D"):
        run_dsa_job(job, part, tier)
    else:
        run_helper_job(job, part)
    return part


def run(ctx):
    ctx.level = "exploration"
    q = ctx.quick
    two = "A6" if q else "A9"
    d1 = "A4" if q else "A6, plus 3x2 tables over (0,1,inf)"
    ctx.rule = (
        "HELPERS: every call of the families FA find_arg_optimal (6 domain kinds int/str/unsorted/mixed, d<=3, 3 relation kinds, all cost "
        "vectors over A9=(0,1,-1,2.5,2^31,2^40,-2^40,+inf,-inf)); FO find_optimal (1 constraint of 7 scope/assignment shapes x all A9 columns, "
        "matrix and function relations; own cost dict/partial dict/function/expression over A9 x (0 or 1 constraint) x all columns; 2 constraints "
        "of 4 shape pairs x all column pairs over " + two + " without/with own cost"
        + ("" if q else "; 3-value domains with A6 and A9 own-cost x column") +
        "); FV optimal_cost_value (all own-cost vectors over A9, 5 cost kinds, every answer of its random draw); FP projection (arity 1-3, x in "
        "every position, all tables over A9 (arity<=2, d=2) or A3/A4/A6 (larger)); min and max; the assigned column of a table is the enumerated "
        "vector, all other cells are decoys; cases whose local cost is +inf + -inf are skipped. DSA: worlds D1 (1 neighbour, all 2x2 tables over "
        + d1 + "), D2 (2 neighbours, 2 binary tables from a menu), D3 (ternary 0/1 tables), D4 (binary+unary), D0 (isolated, unary "
        "tables over A4, own costs over (0,1,3)) x own cost none/dict/expression x min/max x dsa A,B,C / adsa A,B,C / dsatuto; per world every "
        "script (2 rounds of every neighbour value combination in every per-sender-FIFO arrival order; adsa: ticks before/between/after, second "
        "round partial) x every answer vector of the random draws. Non-trivial = the reference optimal set is a proper subset of the domain "
        "(a wrong answer is possible); tokens are (family, kinds, mode, optimal index set, optimal cost) classes, not single cases."
    )
    ctx.assumptions = [
        "Reference model: nested-list table lookup + Python sum/min/max (exact on the alphabet: multiples of 0.5 below 2^53, +-inf).",
        "DSA part: the computation is driven sequentially through its public entry points (start, on_message, the periodic action registered by adsa); messages received before start, pause/resume and the threaded runtime are C19/C18's subject.",
        "Random draws are answered by vf.core.choice.RandomFacade: choice() over all elements, random() over {0.0, 0.999999} (both sides of every probability threshold).",
        "An exception escaping a DSA handler ends that run and is recorded as an observation, not as a C06 violation (no move was made).",
    ]
    jobs = helper_jobs(ctx.tier) + dsa_jobs(ctx.tier)
    jobs.sort(key=lambda j: -j["size"])
    ctx.pmap(shard, [(j, ctx.tier) for j in ctx.rotate(jobs)])


def replay(case):
    install_facades()
    part = Part()
    if case.get("part") == "dsa":
        w = dict(case["world"])
        w["own"] = dec(w["own"]) if w["own"] is not None else None
        w["cons"] = [dict(c, table=dec(c["table"])) for c in w["cons"]]
        h = Harness(w)
        script = [tuple(o) for o in case["script"]]
        choice_mod.set_controller(choice_mod.Controller(case["answers"]))
        sel, exc = h.execute(script)
        print("world     :", case["world"])
        print("script    :", script, "draw answers:", case["answers"])
        for phase, val, view, _ in sel:
            print(f"  step {phase}: value_selection({val!r}) neighbour view {view}")
        print("exception :", repr(exc))
        judge_run(h, script, case["answers"], sel, exc, part)
    else:
        c = dict(case)
        helper = c["helper"]
        if helper == "find_optimal":
            c["own"] = dec(c["own"]) if c["own"] is not None else None
            c["cons"] = [dict(k, table=dec(k["table"])) for k in c["cons"]]
            print("returned:", judge_find_optimal(c, part))
        elif helper == "find_arg_optimal":
            c["col"] = dec(c["col"])
            judge_find_arg_optimal(c, part)
        elif helper == "optimal_cost_value":
            c["own"] = dec(c["own"]) if c["own"] is not None else None
            judge_optimal_cost_value(c, part)
        elif helper == "projection":
            c["table"] = dec(c["table"])
            judge_projection(c, part)
    for v in part.violations:
        print(v["key"], "::", v["what"])
    return bool(part.violations)
