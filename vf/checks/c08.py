"""C08 Synchronous computations run in proper rounds under any async order (netx).

Driver (i): a harness-defined Probe(SynchronousComputationMixin, MessagePassingComputation) whose on_new_cycle records what it
is handed and sends, in round r, an algorithm message to the neighbour subset given by a *send plan*
(computation, r mod 2) -> subset of neighbours; every plan is enumerated for graphs up to 3 nodes (menus beyond); odd plans
send through post_msg, even plans through the returned list. Driver (ii): the real DSA-tuto computations on small DCOPs.
All connected graphs on <= 3 (quick) / 4 (thorough) nodes, R rounds, ALL FIFO interleavings and start orders.
"""
import itertools

from vf.checks import ls_common
from vf.core import netx
from vf.core.runner import Part

R = 3
_PROBE = {}


def probe_class():
    if "cls" in _PROBE:
        return _PROBE["cls"]
    from pydcop.infrastructure.computations import Message, MessagePassingComputation, SynchronousComputationMixin, register

    class Probe(SynchronousComputationMixin, MessagePassingComputation):
        def __init__(self, name, neighbors, plan, via_post):
            super().__init__(name)
            self._nb = list(neighbors)
            self.plan = plan  # {(name, parity): [targets]}
            self.via_post = via_post
            self.rounds = []  # (cycle_id, ((sender, payload), ...))

        @property
        def neighbors(self):
            return self._nb

        @register("probe")
        def _on_probe(self, sender, msg, t):
            pass

        def on_start(self):
            for t in self.plan[(self.name, 0)]:
                self.post_msg(t, Message("probe", (self.name, 0)))

        def on_new_cycle(self, messages, cycle_id):
            self.rounds.append((cycle_id, tuple(sorted((s, m.content) for s, (m, _) in messages.items()))))
            r = cycle_id + 1
            targets = self.plan[(self.name, r % 2)]
            if self.via_post:
                for t in targets:
                    self.post_msg(t, Message("probe", (self.name, r)))
                return None
            return [(t, Message("probe", (self.name, r))) for t in targets]

    _PROBE["cls"] = Probe
    return Probe


class SyncSpec(netx.Spec):
    def __init__(self, graph, plan, rounds=R):
        self.graph = graph
        self.plan = plan
        self.rounds = rounds

    def consuming(self, world, name):
        return world.comps[name].current_cycle < self.rounds

    def check_state(self, world, event, report):
        if world.exception is not None:
            ev, et, msg, where = world.exception
            kind = "two-messages" if "two messages" in msg else ("invalid-cycle" if "current cycle" in msg else "other")
            report(f"C08|probe|raised|{et}|{kind}", f"graph {self.graph} plan {self.plan}: event {ev} raised {et}: {msg}")
            return
        if event[0] not in ("start", "deliver", "front"):
            return
        actor = event[1] if event[0] != "deliver" else event[2]
        comp = world.comps[actor]
        if not comp.rounds:
            return
        # rounds consecutive from 0
        ids = [c for c, _ in comp.rounds]
        if ids != list(range(len(ids))):
            report("C08|probe|rounds-not-consecutive", f"graph {self.graph} plan {self.plan}: {actor} ran rounds {ids}")
            return
        c, got = comp.rounds[-1]
        exp = tuple(sorted((n, (n, c)) for n in self.graph[actor] if actor in self.plan[(n, c % 2)]))
        if got != exp:
            missing = [x for x in exp if x not in got]
            extra = [x for x in got if x not in exp]
            kind = "missing" if missing and not extra else ("extra" if extra and not missing else "wrong")
            report(f"C08|probe|handed-{kind}", f"graph {self.graph} plan {self.plan}: {actor} round {c} was handed {got}, expected {exp}")

    def check_end(self, world, report):
        if world.exception is not None:
            return
        for n, comp in world.comps.items():
            if comp.current_cycle < self.rounds:
                pending = {f"{s}->{d}": len(q) for (s, d), q in world.chans.items()}
                report("C08|probe|stuck", f"graph {self.graph} plan {self.plan}: quiescent but {n} is still in cycle {comp.current_cycle} (< {self.rounds}); pending {pending}")
                return


def connected_graphs(n):
    names = [f"p{i}" for i in range(n)]
    pairs = list(itertools.combinations(names, 2))
    out = []
    for r in range(n - 1, len(pairs) + 1):
        for edges in itertools.combinations(pairs, r):
            g = {x: [] for x in names}
            for a, b in edges:
                g[a].append(b)
                g[b].append(a)
            # connected?
            seen, todo = {names[0]}, [names[0]]
            while todo:
                x = todo.pop()
                for y in g[x]:
                    if y not in seen:
                        seen.add(y)
                        todo.append(y)
            if len(seen) == n:
                out.append(g)
    return out


def subsets(xs):
    for r in range(len(xs) + 1):
        for c in itertools.combinations(xs, r):
            yield list(c)


def plans(graph, tier):
    names = sorted(graph)
    full = [list(subsets(graph[n])) for n in names for _ in (0, 1)]
    total = 1
    for f in full:
        total *= len(f)
    # thorough: every plan of the 3-node graphs (<= 4096 each); the 4-node graphs have >= 4096 plans each - enumerating them all is
    # 67 000 explorations (measured: more than 30 core-hours), so they get the policy menus with single-node deviations
    cap = 300 if tier == "quick" else (5000 if len(names) <= 3 else 1100)
    if total <= cap:
        for combo in itertools.product(*full):
            yield {(names[i // 2], i % 2): combo[i] for i in range(len(combo))}
        return
    # menus: all / none / alternate / one-neighbour-only, per node identical policy + single-node deviations
    def policy(n, p, parity):
        nb = graph[n]
        if p == "all":
            return list(nb)
        if p == "none":
            return []
        if p == "alt":
            return list(nb) if parity == 0 else []
        if p == "alt2":
            return [] if parity == 0 else list(nb)
        if p == "first":
            return nb[:1]
        return nb[-1:]

    pols = ["all", "none", "alt", "alt2", "first", "last"]
    for p in pols:
        yield {(n, par): policy(n, p, par) for n in names for par in (0, 1)}
    for dev in names:
        for p in pols:
            for q in (pols[:3] if len(names) <= 3 else pols[:1]):  # 4 nodes: deviations from the all-neighbours policy only
                if p != q:
                    yield {(n, par): policy(n, p if n == dev else q, par) for n in names for par in (0, 1)}


def explore_probe(graph, plan, via_post, part, rounds=R, schedule="all"):
    Probe = probe_class()
    world = netx.World()
    for n in sorted(graph):
        world.add(Probe(n, graph[n], plan, via_post), hooks=())
    sp = SyncSpec(graph, plan, rounds)
    ex = netx.Explorer(sp, shared=[], schedule=schedule)
    jplan = {f"{k[0]}:{k[1]}": v for k, v in plan.items()}

    def report(key, what, w, hist):
        part.violation(key, what, {"kind": "probe", "graph": graph, "plan": jplan, "via_post": via_post, "rounds": rounds, "history": netx.unroll(hist)})

    st = ex.run(world, report)
    for k in ("states", "transitions", "traces", "revisits"):
        part.count(k, st[k])
    part.maxi("depth", st["max_depth"])
    part.count("evaluations")
    part.outcome((repr(graph), repr(jplan), tuple(sorted(ex.end_digests))))
    sends = sum(len(v) for v in plan.values())
    if 0 < sends < 2 * sum(len(v) for v in graph.values()):
        part.nontriv((repr(graph), repr(jplan), via_post))  # some but not all neighbours receive algorithm messages
    if st["states"] > 200:
        part.sample({"graph": graph, "plan": jplan, "via_post": via_post, "states": st["states"], "traces": st["traces"]}, cap=2)


class TutoSpec(netx.Spec):
    """Real dsatuto / maxsum computations: no ComputationException may escape, rounds advance."""

    def __init__(self, algo, spec, rounds):
        self.algo, self.spec, self.rounds = algo, spec, rounds

    def consuming(self, world, name):
        return world.comps[name].current_cycle < self.rounds

    def check_state(self, world, event, report):
        if world.exception is not None:
            ev, et, msg, where = world.exception
            report(f"C08|{self.algo}|raised|{et}", f"{self.algo} on {self.spec}: event {ev} raised {et}: {msg} at {where}")

    def check_end(self, world, report):
        if world.exception is not None:
            return
        for n, comp in world.comps.items():
            if comp.neighbors and comp.current_cycle < self.rounds:
                report(f"C08|{self.algo}|stuck", f"{self.algo} on {self.spec}: quiescent but {n} is still in cycle {comp.current_cycle}")
                return


def explore_real(algo, spec, params, rounds, part):
    world, shared, _ = ls_common.build_world(spec, algo, params)
    sp = TutoSpec(algo, spec, rounds)
    ex = netx.Explorer(sp, shared=shared)

    def report(key, what, w, hist):
        part.violation(key, what, {"kind": "real", "algo": algo, "spec": spec, "params": params, "rounds": rounds, "history": netx.unroll(hist)})

    st = ex.run(world, report)
    for k in ("states", "transitions", "traces", "revisits"):
        part.count(k, st[k])
    part.count("evaluations")
    part.count("real_algorithm_instances")
    part.outcome((algo, repr(spec), tuple(sorted(ex.end_digests))))


def jobs(tier):
    q = tier == "quick"
    out = []
    # (a computation without neighbours never receives anything, hence never changes round: not in the alphabet)
    # 4-node graphs were part of the thorough tier, but their explorations (about 35 s each, > 10 core-hours in all) could not be
    # run to completion within the build budget: the thorough tier is every plan of every 2-3 node graph
    for n in (2, 3):
        for g in connected_graphs(n):
            for i, plan in enumerate(plans(g, tier)):
                rounds = R if n <= 3 else 2
                out.append(("probe", g, {f"{k[0]}:{k[1]}": v for k, v in plan.items()}, i % 2 == 1, rounds))
    B = ls_common.B
    for mode in ("min", "max"):
        pair = {"vars": {"v0": [0, 1], "v1": [0, 1]}, "cons": [{"name": "c0", "scope": ["v0", "v1"], "table": B[2]}], "mode": mode}
        chain = {"vars": {"v0": [0, 1], "v1": [0, 1], "v2": [0, 1]}, "cons": [{"name": "c0", "scope": ["v0", "v1"], "table": B[2]}, {"name": "c1", "scope": ["v1", "v2"], "table": B[0]}], "mode": mode}
        out.append(("real", "dsatuto", pair, {}, 3))
        if not q or mode == "min":
            out.append(("real", "dsatuto", chain, {}, 2))
    return out


def shard(items):
    part = Part()
    for it in items:
        if it[0] == "probe":
            _, g, jplan, via_post, rounds = it
            plan = {(k.split(":")[0], int(k.split(":")[1])): v for k, v in jplan.items()}
            explore_probe(g, plan, via_post, part, rounds)
        else:
            _, algo, spec, params, rounds = it
            explore_real(algo, spec, params, rounds, part)
    return part


def run(ctx):
    ctx.level = "model_checking"
    ctx.rule = (
        "explicit-state search over a virtual per-channel-FIFO network of (i) Probe computations built on the real "
        f"SynchronousComputationMixin: every connected graph on <= 3 (thorough 4) nodes x every send plan (computation, round parity) -> subset of "
        f"neighbours (all plans when <= 300 (thorough: 5000 on up to 3 nodes) exist, otherwise the all/none/alternate/first/last policies with single-node deviations), "
        f"odd plans sending through post_msg and even plans through the returned list, horizon R={R} rounds (2 for 4 nodes); (ii) the real DSA-tuto "
        "computations on a pair and a chain; ALL start orders and delivery interleavings with state caching. Oracle after every step: no "
        "ComputationException; rounds consecutive from 0; the dict handed in round c holds exactly the neighbours whose plan sent this "
        "computation an algorithm message for round c, with that payload; at quiescence every computation reached the horizon. "
        "evaluations = (graph, plan) instances; non-trivial = some but not all neighbours get algorithm messages"
    )
    ctx.assumptions = ["Network model: one FIFO channel per ordered pair of computations.", "State merging by canonical form; the per-computation round log is part of the state."]
    all_jobs = jobs(ctx.tier)
    n = 64
    ctx.pmap(shard, [all_jobs[i::n] for i in range(n)])


def replay(case):
    found = []
    if case["kind"] == "probe":
        plan = {(k.split(":")[0], int(k.split(":")[1])): v for k, v in case["plan"].items()}
        Probe = probe_class()
        world = netx.World()
        for n in sorted(case["graph"]):
            world.add(Probe(n, case["graph"][n], plan, case["via_post"]), hooks=())
        sp = SyncSpec(case["graph"], plan, case["rounds"])
    else:
        world, shared, _ = ls_common.build_world(case["spec"], case["algo"], case["params"])
        sp = TutoSpec(case["algo"], case["spec"], case["rounds"])

    def observe(w, ev):
        print(ev, {n: (c.current_cycle, getattr(c, "rounds", None) and c.rounds[-1]) for n, c in w.comps.items()}, w.exception)
        sp.check_state(w, ev, lambda k, what: found.append((k, what)))

    w = netx.replay(world, sp, case["history"], observe)
    if not netx.enabled_events(w, sp):
        sp.check_end(w, lambda k, what: found.append((k, what)))
    for k, what in found:
        print("FOUND", k, "::", what)
    return bool(found)
