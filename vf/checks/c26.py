"""C26 Repair DCOP constraints and candidate info encode the repair rules.

Bounded-exhaustive enumeration (E2) in three layers, each against a reference model
written here from the property text:

R  removal info   : every discovery state (computation graph x hosting x replica sets) x every
                    departed subset -> the real pydcop.reparation.removal functions.
K  constraints    : every create_*_constraint input over small alphabets (built the way
                    ResilientAgent.setup_repair builds them) x every binary assignment.
P  pipeline       : small states, real _removal_candidate_agt_info -> real
                    ResilientAgent.setup_repair -> the constraints of the generated repair
                    computations x every binary assignment, reference computed from the raw state.
"""
import itertools

from vf.core.runner import Part

# ----------------------------------------------------------------------------- alphabets

GRAPHS = {
    # name: (number of computations, edges as 1-based pairs)
    "p2": (2, [(1, 2)]),
    "p3": (3, [(1, 2), (2, 3)]),
    "t3": (3, [(1, 2), (2, 3), (1, 3)]),
    "p4": (4, [(1, 2), (2, 3), (3, 4)]),
    "paw": (4, [(1, 2), (2, 3), (1, 3), (3, 4)]),
    "c4": (4, [(1, 2), (2, 3), (3, 4), (1, 4)]),
    "p5": (5, [(1, 2), (2, 3), (3, 4), (4, 5)]),
    "p6": (6, [(1, 2), (2, 3), (3, 4), (4, 5), (5, 6)]),
}

# (graph, number of agents, max replica-set size, max departed-set size)
R_PLANS_QUICK = [
    ("p2", 3, 2, 2), ("p3", 3, 2, 2), ("t3", 3, 2, 2),
    ("p3", 4, 2, 2), ("t3", 4, 2, 2), ("p4", 4, 2, 2), ("paw", 4, 1, 2),
]
R_PLANS_THOROUGH = R_PLANS_QUICK + [
    ("paw", 4, 2, 2), ("c4", 4, 3, 3), ("p4", 5, 2, 2), ("paw", 5, 1, 2), ("c4", 5, 1, 2), ("p5", 5, 1, 2), ("p6", 3, 1, 2),
]

# (graph, number of agents, max replica-set size); every non-empty departed subset of size <= 2; 3 cost menus
P_PLANS_QUICK = [("p2", 3, 2), ("p3", 3, 2), ("t3", 3, 2), ("p3", 4, 2), ("t3", 4, 2)]
P_PLANS_THOROUGH = P_PLANS_QUICK + [("p4", 4, 2), ("paw", 4, 1)]

FOOTPRINTS = [0, 1, 2.5]
REMAININGS = [-1, 0, 1, 2.5, 3.5, 100]
HOSTING_COSTS = [0, 5, 0.5]

TOL = 1e-9


def close(a, b):
    try:
        return abs(a - b) <= TOL * max(1, abs(a), abs(b))
    except TypeError:
        return False


def agent_name(i):
    return "a%d" % (i + 1)


def comp_name(i):
    return "c%d" % (i + 1)


def subsets_upto(items, k):
    items = list(items)
    for r in range(min(k, len(items)) + 1):
        for c in itertools.combinations(items, r):
            yield list(c)


def growth_strings(k, maxblocks):
    """Restricted growth strings: hosting maps up to renaming of agents (c1 on a1, a new agent is
    always the next unused one)."""
    def rec(prefix, used):
        if len(prefix) == k:
            yield list(prefix)
            return
        for v in range(min(used + 1, maxblocks)):
            yield from rec(prefix + [v], max(used, v + 1))
    return rec([], 0)


def neighbours_of(graph):
    k, edges = GRAPHS[graph]
    nb = {comp_name(i): [] for i in range(k)}
    for x, y in edges:
        nb[comp_name(x - 1)].append(comp_name(y - 1))
        nb[comp_name(y - 1)].append(comp_name(x - 1))
    return nb


# ----------------------------------------------------------------------------- reference model


def decode_state(st):
    """JSON-able state -> names. st = {graph, agents, hosts:[agent idx per comp], reps:[[agent idx]], departed:[idx]}"""
    agents = [agent_name(i) for i in range(st["agents"])]
    hosts = {comp_name(i): agent_name(a) for i, a in enumerate(st["hosts"])}
    reps = {comp_name(i): {agent_name(a) for a in r} for i, r in enumerate(st["reps"])}
    departed = [agent_name(a) for a in st["departed"]]
    return agents, hosts, reps, departed, neighbours_of(st["graph"])


def ref_orphans(hosts, departed):
    return {c for c, a in hosts.items() if a in departed}


def ref_candidates(hosts, reps, departed):
    """surviving agents holding a replica of an orphaned computation"""
    return {a for c in ref_orphans(hosts, departed) for a in reps[c] if a not in departed}


def ref_agent_info(agent, nbrs, hosts, reps, departed):
    """{orphan the agent holds a replica of: (surviving replica holders,
                                             {non-orphaned neighbour: its host},
                                             {orphaned neighbour: its surviving replica holders})}"""
    orph = ref_orphans(hosts, departed)
    info = {}
    for c in orph:
        if agent not in reps[c]:
            continue
        info[c] = (
            {a for a in reps[c] if a not in departed},
            {n: hosts[n] for n in nbrs[c] if n not in orph},
            {n: {a for a in reps[n] if a not in departed} for n in nbrs[c] if n in orph},
        )
    return info


def canon_info(info):
    """Order-free form of a (real or reference) info dict, for comparison and for outcome tokens."""
    out = []
    for c in sorted(info):
        agts, fixed, cn = info[c]
        out.append((c, tuple(sorted(agts)), tuple(sorted(fixed.items())),
                    tuple(sorted((n, tuple(sorted(l))) for n, l in cn.items()))))
    return tuple(out)


def ref_hosted(values):
    """0 iff exactly one candidate hosts the computation -> True when the score must be 0"""
    return sum(values) == 1


def ref_capacity_fits(selected_footprints, remaining):
    return sum(selected_footprints) <= remaining


def ref_comm(x_local, fixed_terms, cand_terms):
    """fixed_terms: [cost]; cand_terms: [(x, cost)] -> (total, fixed part, candidate part)"""
    f = sum(fixed_terms)
    c = sum(x * cost for x, cost in cand_terms)
    return x_local * (f + c), x_local * f, x_local * c


# ----------------------------------------------------------------------------- helpers on real objects


def build_discovery(agents, hosts, reps):
    from pydcop.infrastructure.discovery import Discovery

    d = Discovery("orchestrator", "addr_orchestrator")
    for a in agents:
        d.register_agent(a, "addr_" + a, publish=False)
    for c, a in hosts.items():
        d.register_computation(c, a, publish=False)
    for c in sorted(reps):
        for a in sorted(reps[c]):
            d.register_replica(c, a, publish=False)
    return d


_PLAIN_GRAPHS = {}


def plain_graph(graph):
    """ComputationGraph made of plain ComputationNode + Link, as in tests/unit/test_reparation_removal."""
    if graph not in _PLAIN_GRAPHS:
        from pydcop.computations_graph.objects import ComputationGraph, ComputationNode, Link

        k, edges = GRAPHS[graph]
        links = [Link([comp_name(x - 1), comp_name(y - 1)]) for x, y in edges]
        nodes = [ComputationNode(comp_name(i), "test", links=[l for l in links if l.has_node(comp_name(i))])
                 for i in range(k)]
        _PLAIN_GRAPHS[graph] = ComputationGraph("test", nodes=nodes)
    return _PLAIN_GRAPHS[graph]


def assignments(names):
    names = list(names)
    for bits in itertools.product((0, 1), repeat=len(names)):
        yield dict(zip(names, bits))


def exc_sig(e):
    return type(e).__name__


def raised_in_pydcop(e):
    """True when the innermost frame of the exception is pyDCOP code (not this check)."""
    tb = e.__traceback__
    while tb.tb_next is not None:
        tb = tb.tb_next
    return "pydcop" in tb.tb_frame.f_code.co_filename


# ----------------------------------------------------------------------------- layer R : removal info


def r_state_check(st, part, verbose=False):
    """Runs the real removal functions on one state; returns an outcome token."""
    from pydcop.reparation.removal import (
        _removal_candidate_agents, _removal_candidate_agt_info, _removal_orphaned_computations)

    agents, hosts, reps, departed, nbrs = decode_state(st)
    disc = build_discovery(agents, hosts, reps)
    cg = plain_graph(st["graph"])
    case = {"layer": "R", "state": st}
    descr = f"graph={st['graph']} hosts={hosts} replicas={ {c: sorted(r) for c, r in reps.items()} } departed={departed}"

    exp_orph = ref_orphans(hosts, departed)
    exp_cands = ref_candidates(hosts, reps, departed)
    try:
        orph = list(_removal_orphaned_computations(list(departed), disc))
        cands = list(_removal_candidate_agents(list(departed), disc))
    except Exception as e:  # prevents the stated result
        part.violation("removal|raised|" + exc_sig(e), f"{descr}: candidate computation raised {e!r}", case)
        return ("raised", exc_sig(e))
    if verbose:
        print("orphaned  :", sorted(orph), "expected", sorted(exp_orph))
        print("candidates:", sorted(cands), "expected", sorted(exp_cands))
    if set(orph) != exp_orph:
        part.violation("removal|orphaned", f"{descr}: orphaned computations {sorted(orph)} expected {sorted(exp_orph)}", case)
    got_c = set(cands)
    if got_c != exp_cands:
        extra, missing = got_c - exp_cands, exp_cands - got_c
        if extra & set(departed):
            kind = "departed-agent-listed"
        elif extra:
            kind = "non-holder-listed"
        else:
            kind = "holder-missing"
        part.violation("removal|candidate_agents|" + kind,
                       f"{descr}: candidate agents {sorted(got_c)} expected {sorted(exp_cands)}", case)

    outcome = [tuple(sorted(got_c))]
    for a in agents:
        if a in departed:
            continue
        exp = ref_agent_info(a, nbrs, hosts, reps, departed)
        try:
            info = _removal_candidate_agt_info(a, list(departed), cg, disc)
        except Exception as e:
            part.violation("removal|agt_info|raised|" + exc_sig(e), f"{descr}: info for {a} raised {e!r}", case)
            continue
        if verbose:
            print("info for", a, ":", canon_info(info), "expected", canon_info(exp))
        if a == min(exp_cands, default=None):
            outcome.append(canon_info(info))
        if set(info) != set(exp):
            part.violation("removal|agt_info|computations",
                           f"{descr}: agent {a} gets info for {sorted(info)} expected {sorted(exp)} "
                           "(orphaned computations it holds a replica of)", case)
            continue
        for c in sorted(exp):
            agts, fixed, cn = info[c]
            e_agts, e_fixed, e_cn = exp[c]
            if set(agts) != e_agts:
                kind = "departed-agent-listed" if (set(agts) - e_agts) & set(departed) else "wrong-set"
                part.violation("removal|comp_info|candidate_agents|" + kind,
                               f"{descr}: candidates for {c} (info of {a}) {sorted(agts)} expected {sorted(e_agts)}", case)
            if dict(fixed) != e_fixed:
                bad_host = [n for n, h in dict(fixed).items() if h in departed]
                if bad_host:
                    kind = "hosted-on-departed"
                elif set(fixed) != set(e_fixed):
                    kind = "wrong-neighbours"
                else:
                    kind = "wrong-host"
                part.violation("removal|comp_info|fixed_neighbors|" + kind,
                               f"{descr}: fixed neighbours of {c} (info of {a}) {dict(fixed)} expected {e_fixed}", case)
            got_cn = {n: set(l) for n, l in dict(cn).items()}
            if got_cn != e_cn:
                if set(got_cn) != set(e_cn):
                    kind = "wrong-neighbours"
                elif any((got_cn[n] - e_cn[n]) & set(departed) for n in e_cn):
                    kind = "departed-agent-listed"
                else:
                    kind = "wrong-set"
                part.violation("removal|comp_info|candidate_neighbors|" + kind,
                               f"{descr}: candidate neighbours of {c} (info of {a}) "
                               f"{ {n: sorted(l) for n, l in got_cn.items()} } expected { {n: sorted(l) for n, l in e_cn.items()} }",
                               case)
    return tuple(outcome)


def r_jobs(plans):
    jobs = []
    for graph, n, max_rep, max_dep in plans:
        k = GRAPHS[graph][0]
        for hosting in growth_strings(k, n):
            first_opts = list(subsets_upto([a for a in range(n) if a != hosting[0]], max_rep))
            for r0 in first_opts:
                jobs.append(("R", graph, n, max_rep, max_dep, hosting, r0))
    return jobs


def r_states(graph, n, max_rep, max_dep, hosting, r0):
    k = GRAPHS[graph][0]
    rep_opts = [list(subsets_upto([a for a in range(n) if a != hosting[i]], max_rep)) for i in range(1, k)]
    dep_opts = [d for d in subsets_upto(range(n), max_dep) if d]
    for reps in itertools.product(*rep_opts):
        for dep in dep_opts:
            yield {"graph": graph, "agents": n, "hosts": list(hosting), "reps": [list(r0)] + [list(r) for r in reps],
                   "departed": list(dep)}


def r_shard(job, part):
    _, graph, n, max_rep, max_dep, hosting, r0 = job
    for i, st in enumerate(r_states(graph, n, max_rep, max_dep, hosting, r0)):
        out = r_state_check(st, part)
        part.count("evaluations")
        part.count("removal_states")
        agents, hosts, reps, departed, nbrs = decode_state(st)
        orph = ref_orphans(hosts, departed)
        cands = ref_candidates(hosts, reps, departed)
        if cands:
            part.count("removal_states_with_candidates")
            # non-trivial: something is orphaned AND somebody survives to take it; the token keeps what
            # makes the case differ for the code under test (not the full state: memory)
            dep_holds = any(reps[c] & set(departed) for c in orph)
            orph_nb = any(n2 in orph for c in orph for n2 in nbrs[c])
            part.nontriv(("R", graph, n, tuple(hosting), tuple(departed), tuple(sorted(cands)), dep_holds, orph_nb))
            if dep_holds:
                part.count("removal_states_departed_holds_replica")
            if orph_nb:
                part.count("removal_states_orphaned_neighbours")
        part.outcome(("R", out))
        if graph == "p4" and n == 4 and hosting == [0, 1, 1, 2] and r0 == [1] and i in (1203, 2617):
            part.sample({"layer": "R", "state": st, "observed": out})


# ----------------------------------------------------------------------------- layer K : constraint builders

K_AGENTS = ["a1", "a2", "a3", "a4"]
K_NEIGHBOURS = ["n1", "n2", "n3"]
K_LOAD = {"n1": 1, "n2": 10, "n3": 0.5}
K_ROUTE = {"a1": 0, "a2": 1, "a3": 0.5, "a4": 7}


def k_comm_func(menu):
    def injective(c, n, a):
        if c != "c0":
            return 10 ** 9
        return 2 ** (4 * K_NEIGHBOURS.index(n) + K_AGENTS.index(a))

    def route_load(c, n, a):
        if c != "c0":
            return 10 ** 9
        return K_LOAD[n] * K_ROUTE[a]

    def constant(c, n, a):
        return 1

    return [injective, route_load, constant][menu]


def eval_constraint(constraint, ass):
    return constraint.get_value_for_assignment(dict(ass))


def k_hosted(case, part, verbose=False):
    from pydcop.dcop.objects import create_binary_variables
    from pydcop.reparation import create_computation_hosted_constraint

    agts = ["a%d" % (i + 1) for i in range(case["n"])]
    bin_vars = create_binary_variables("B", (["c0"], agts))
    c = create_computation_hosted_constraint("c0", bin_vars)
    got_vec = []
    for ass in assignments([v.name for v in c.dimensions]):
        part.count("assignments")
        got = eval_constraint(c, ass)
        got_vec.append(got)
        s = sum(ass.values())
        if verbose:
            print(ass, "->", got, "expected", "0" if ref_hosted(ass.values()) else "non-zero")
        if (got == 0) != ref_hosted(ass.values()):
            kind = "nonzero-for-exactly-one" if s == 1 else ("zero-for-none" if s == 0 else "zero-for-several")
            part.violation("hosted|" + kind,
                           f"hosted constraint over candidates {agts}: assignment {ass} ({s} hosts) scores {got}, "
                           f"expected {'0' if s == 1 else 'non-zero'}", case)
    if sorted(v.name for v in c.dimensions) != sorted(v.name for v in bin_vars.values()):
        part.violation("hosted|scope", f"hosted constraint over {agts} has scope {[v.name for v in c.dimensions]}", case)
    return got_vec


def k_capacity(case, part, verbose=False):
    from pydcop.dcop.objects import create_binary_variables
    from pydcop.reparation import create_agent_capacity_constraint

    fps, remaining = case["fps"], case["remaining"]
    comps = ["c%d" % (i + 1) for i in range(len(fps))]
    table = dict(zip(comps, fps))
    bin_vars = {}
    for cn in comps:  # one call per computation, like setup_repair
        bin_vars[(cn, "a1")] = create_binary_variables("B", ([cn], ["a1", "a2"]))[(cn, "a1")]
    names = {v.name: k[0] for k, v in bin_vars.items()}
    c = create_agent_capacity_constraint("a1", remaining, lambda name: table[name], bin_vars)
    got_vec = []
    for ass in assignments([v.name for v in c.dimensions]):
        part.count("assignments")
        got = eval_constraint(c, ass)
        got_vec.append(got)
        sel = [table[names[v]] for v, x in ass.items() if x and v in names]
        fits = ref_capacity_fits(sel, remaining)
        if verbose:
            print(ass, "->", got, "expected", "0" if fits else "non-zero", "(selected", sum(sel), "remaining", remaining, ")")
        if (got == 0) != fits:
            if fits:
                kind = "nonzero-when-fits|" + ("exact-fit" if sum(sel) == remaining else "slack")
            else:
                kind = "zero-when-overflow"
            part.violation("capacity|" + kind,
                           f"capacity constraint footprints={table} remaining={remaining}: assignment {ass} selects "
                           f"{sum(sel)} and scores {got}, expected {'0' if fits else 'non-zero'}", case)
    if set(names) - {v.name for v in c.dimensions}:
        part.violation("capacity|scope-missing", f"capacity constraint scope {[v.name for v in c.dimensions]} expected {sorted(names)}", case)
    return got_vec


def k_hosting(case, part, verbose=False):
    from pydcop.dcop.objects import create_binary_variables
    from pydcop.reparation import create_agent_hosting_constraint

    costs = case["costs"]
    comps = ["c%d" % (i + 1) for i in range(len(costs))]
    table = dict(zip(comps, costs))
    bin_vars = {}
    for cn in comps:
        bin_vars[(cn, "a1")] = create_binary_variables("B", ([cn], ["a1", "a2"]))[(cn, "a1")]
    names = {v.name: k[0] for k, v in bin_vars.items()}
    c = create_agent_hosting_constraint("a1", lambda name: table[name], bin_vars)
    got_vec = []
    for ass in assignments([v.name for v in c.dimensions]):
        part.count("assignments")
        got = eval_constraint(c, ass)
        got_vec.append(got)
        exp = sum(table[names[v]] * x for v, x in ass.items() if v in names)
        if verbose:
            print(ass, "->", got, "expected", exp)
        if not close(got, exp):
            part.violation("hosting|sum-mismatch",
                           f"hosting constraint costs={table}: assignment {ass} scores {got}, expected {exp}", case)
    if set(names) - {v.name for v in c.dimensions}:
        part.violation("hosting|scope-missing", f"hosting constraint scope {[v.name for v in c.dimensions]} expected {sorted(names)}", case)
    return got_vec


def comm_compare(got, ass, x_local_name, fixed_terms, cand_terms, label, descr, case, part, verbose=False):
    """cand_terms: [(variable name, cost)]. A variable the sum really depends on must be in the scope."""
    missing = [v for v, cost in cand_terms if v not in ass and cost != 0]
    if x_local_name not in ass and (any(fixed_terms) or any(cost for _, cost in cand_terms)):
        missing.append(x_local_name)
    if missing:
        part.violation(label + "|scope-missing", f"{descr}: scope {sorted(ass)} misses {missing}", case)
        return False
    exp, exp_f, exp_c = ref_comm(ass.get(x_local_name, 0), fixed_terms, [(ass.get(v, 0), cost) for v, cost in cand_terms])
    if verbose:
        print(ass, "->", got, "expected", exp)
    if close(got, exp):
        return True
    if ass.get(x_local_name, 0) == 0:
        kind = "cost-without-local-hosting"
    elif exp_f != 0 and close(got, exp_c):
        kind = "fixed-neighbours-dropped"
    elif exp_c != 0 and close(got, exp_f):
        kind = "candidate-neighbours-dropped"
    else:
        kind = "sum-mismatch"
    part.violation(label + "|" + kind, f"{descr}: assignment {ass} scores {got}, expected {exp} "
                   f"(fixed part {exp_f}, candidate part {exp_c})", case)
    return False


def k_comm(case, part, verbose=False):
    from pydcop.dcop.objects import create_binary_variables
    from pydcop.reparation import create_agent_comp_comm_constraint

    own, nbrs, menu = case["own"], case["nbrs"], case["menu"]
    comm = k_comm_func(menu)
    bin_vars = dict(create_binary_variables("B", (["c0"], own)))
    fixed, cand = {}, {}
    for name, (kind, val) in zip(K_NEIGHBOURS, nbrs):
        if kind == "F":
            fixed[name] = val
        else:
            cand[name] = list(val)
            bin_vars.update(create_binary_variables("B", ([name], list(val))))
    # setup_repair passes ALL the binary variables the agent knows of: add an unrelated one
    bin_vars.update(create_binary_variables("B", (["c9"], ["a1", "a2"])))
    info = (list(own), dict(fixed), {n: list(l) for n, l in cand.items()})
    descr = f"comm constraint for c0 on a1, candidates {own}, fixed {fixed}, candidate neighbours {cand}, cost menu {menu}"
    try:
        c = create_agent_comp_comm_constraint("a1", "c0", info, comm, bin_vars)
    except Exception as e:
        part.violation("comm|raised|" + exc_sig(e), f"{descr}: raised {e!r}", case)
        return ["raised"]
    x_local = bin_vars[("c0", "a1")].name
    fixed_terms = [comm("c0", n, fixed[n]) for n in fixed]
    cand_terms = [(bin_vars[(n, a)].name, comm("c0", n, a)) for n in cand for a in cand[n]]
    got_vec = []
    for ass in assignments([v.name for v in c.dimensions]):
        part.count("assignments")
        try:
            got = eval_constraint(c, ass)
        except Exception as e:
            part.violation("comm|raised|" + exc_sig(e), f"{descr}: assignment {ass} raised {e!r}", case)
            return ["raised"]
        got_vec.append(got)
        if not comm_compare(got, ass, x_local, fixed_terms, cand_terms, "comm", descr, case, part, verbose):
            break
    return got_vec


def k_cases(quick):
    max_n = 4 if quick else 8
    max_k = 4 if quick else 6
    for n in range(1, max_n + 1):
        yield {"layer": "K", "kind": "hosted", "n": n}
    for k in range(1, max_k + 1):
        for fps in itertools.product(FOOTPRINTS, repeat=k):
            for r in REMAININGS:
                yield {"layer": "K", "kind": "capacity", "fps": list(fps), "remaining": r}
    for k in range(1, max_k + 1):
        for costs in itertools.product(HOSTING_COSTS, repeat=k):
            yield {"layer": "K", "kind": "hosting", "costs": list(costs)}
    agents = K_AGENTS[:3] if quick else K_AGENTS
    max_d = 2 if quick else 3
    owns = [["a1"]] + [["a1", a] for a in agents[1:]] + [[a, "a1"] for a in agents[1:2]]
    nb_opts = [["F", a] for a in agents] + [["C", l] for l in subsets_upto(agents, 2)]
    for d in range(max_d + 1):
        for nbrs in itertools.product(nb_opts, repeat=d):
            for own in owns:
                for menu in range(3):
                    yield {"layer": "K", "kind": "comm", "own": own, "nbrs": [list(x) for x in nbrs], "menu": menu}


K_FUNCS = {"hosted": k_hosted, "capacity": k_capacity, "hosting": k_hosting, "comm": k_comm}


def k_nontrivial(case, got_vec):
    kind = case["kind"]
    if kind == "hosted":
        return case["n"] >= 2
    if kind == "capacity":  # both verdicts must occur: the empty selection fits, selecting everything does not
        return 0 <= case["remaining"] < sum(case["fps"])
    if kind == "hosting":
        return len({c for c in case["costs"] if c}) >= 2
    return any(k == "F" for k, _ in case["nbrs"]) and any(k == "C" and v for k, v in case["nbrs"])


def k_shard(job, part):
    _, idx, n, quick = job
    sampled = set()
    for i, case in enumerate(k_cases(quick)):
        if i % n != idx:
            continue
        try:
            got_vec = K_FUNCS[case["kind"]](case, part)
        except Exception as e:
            if not raised_in_pydcop(e):
                raise  # a bug of this check: HARNESS-ERROR
            part.violation(case["kind"] + "|raised|" + exc_sig(e), f"{case}: building or evaluating the constraint raised {e!r}", case)
            got_vec = ["raised"]
        part.count("evaluations")
        part.count("constraints_" + case["kind"])
        if k_nontrivial(case, got_vec):
            part.nontriv(("K", repr(case)))
        if case["kind"] == "capacity" and any(
                sum(s) == case["remaining"] for r in range(1, len(case["fps"]) + 1)
                for s in itertools.combinations(case["fps"], r)):
            part.count("capacity_cases_with_exact_fit")
        part.outcome(("K", case["kind"], tuple(got_vec)))
        if (idx == 0 and k_nontrivial(case, got_vec) and case["kind"] in ("capacity", "comm") and case.get("menu", 0) == 0
                and case["kind"] not in sampled):
            sampled.add(case["kind"])
            part.sample({"case": case, "scores_over_all_assignments": got_vec})


# ----------------------------------------------------------------------------- layer P : real pipeline

# cost menus: footprint of the replica of computation i, remaining capacity before repair, hosting cost table,
# route table (index = agent number), defaults
P_MENUS = [
    {"fp": [1, 1, 1, 1], "remaining": 1, "hosting": {}, "default_hosting": 0, "routes": {}, "default_route": 1},
    {"fp": [1, 2, 3, 4], "remaining": 2.5, "hosting": {1: 5, 2: 10, 3: 15, 4: 20}, "default_hosting": 0,
     "routes": {1: 2, 2: 4, 3: 8, 4: 16}, "default_route": 1},
    {"fp": [0, 2.5, 0.5, 2.5], "remaining": -1, "hosting": {1: 0.5}, "default_hosting": 3,
     "routes": {1: 0, 2: 0.5}, "default_route": 7},
]
P_ALGO = "dsa"


class _FixedRandom:
    """setup_repair draws initial values with random.random(); they do not enter the constraints."""

    @staticmethod
    def random():
        return 0.5


_P_CACHE = {}


def p_graph(graph):
    """A real constraints-hypergraph computation graph for binary constraints on the edges."""
    if graph not in _P_CACHE:
        from pydcop.algorithms import AlgorithmDef, ComputationDef, load_algorithm_module
        from pydcop.computations_graph import constraints_hypergraph as chg
        from pydcop.dcop.objects import Domain, Variable
        from pydcop.dcop.relations import constraint_from_str

        k, edges = GRAPHS[graph]
        dom = Domain("d", "", [0, 1, 2])
        variables = [Variable(comp_name(i), dom) for i in range(k)]
        constraints = [constraint_from_str("k%d%d" % (x, y), "%s + %s" % (comp_name(x - 1), comp_name(y - 1)), variables)
                       for x, y in edges]
        cg = chg.build_computation_graph(variables=variables, constraints=constraints)
        algo = AlgorithmDef.build_with_default_param(P_ALGO, {}, mode="min")
        defs = {n.name: ComputationDef(n, algo) for n in cg.nodes}
        _P_CACHE[graph] = (cg, defs, load_algorithm_module(P_ALGO))
    return _P_CACHE[graph]


def p_agent_check(st, menu_idx, agent, info, part, verbose=False):
    """One candidate agent: real ResilientAgent.setup_repair(info) then every generated constraint x every
    assignment against the reference computed from the raw state."""
    import pydcop.infrastructure.agents as agents_mod
    from pydcop.infrastructure.computations import build_computation
    from pydcop.dcop.objects import AgentDef, create_binary_variables
    from pydcop.infrastructure.communication import InProcessCommunicationLayer
    from pydcop.infrastructure.Events import event_bus

    agents, hosts, reps, departed, nbrs = decode_state(st)
    menu = P_MENUS[menu_idx]
    cg, defs, algo_mod = p_graph(st["graph"])
    case = {"layer": "P", "state": st, "menu": menu_idx, "agent": agent}
    descr = (f"graph={st['graph']} hosts={hosts} replicas={ {c: sorted(r) for c, r in reps.items()} } departed={departed} "
             f"agent={agent} menu={menu_idx}")

    fp = {comp_name(i): menu["fp"][i] for i in range(len(hosts))}
    hosting_table = {comp_name(i - 1): v for i, v in menu["hosting"].items()}
    route_table = {agent_name(i - 1): v for i, v in menu["routes"].items() if agent_name(i - 1) != agent}
    hosted_here = sorted(c for c, a in hosts.items() if a == agent)
    hosted_fp = sum(algo_mod.computation_memory(cg.computation(c)) for c in hosted_here)
    capacity = hosted_fp + menu["remaining"]
    adef = AgentDef(agent, capacity=capacity, default_hosting_cost=menu["default_hosting"], hosting_costs=hosting_table,
                    default_route=menu["default_route"], routes=route_table)

    agents_mod.random = _FixedRandom()
    ra = agents_mod.ResilientAgent(agent, InProcessCommunicationLayer(), adef, replication="dist_ucs_hostingcosts")
    try:
        for other in agents:  # what the directory would have told this agent
            if other != agent:
                ra.discovery.register_agent(other, "addr_" + other, publish=False)
        for c in hosted_here:
            ra.add_computation(build_computation(defs[c]))
        for c in sorted(reps):
            if agent in reps[c]:
                ra.replication_comp._accept_replica(hosts[c], defs[c], fp[c])
        try:
            ra.setup_repair(info)
        except Exception as e:
            part.violation("pipeline|setup_repair-raised|" + exc_sig(e), f"{descr}: setup_repair({info}) raised {e!r}", case)
            return ("raised", exc_sig(e))
        generated = {}  # candidate computation -> {constraint name: constraint}
        for reg in ra._repair_computations.values():
            generated[reg.candidate] = {c.name: c for c in reg.computation.computation_def.node.constraints}
    finally:
        event_bus.reset()

    # ---- reference, from the raw state
    orph = ref_orphans(hosts, departed)
    my_comps = sorted(c for c in orph if agent in reps[c])
    surv = {c: sorted(a for a in reps[c] if a not in departed) for c in orph}

    def var(c, a):
        return create_binary_variables("B", ([c], [a]))[(c, a)].name

    def route(a):
        if a == agent:
            return 0
        return route_table.get(a, menu["default_route"])

    def hosting_cost(c):
        return hosting_table.get(c, menu["default_hosting"])

    outcome = []
    if sorted(generated) != my_comps:
        part.violation("pipeline|repair-computations", f"{descr}: repair computations for {sorted(generated)} expected {my_comps}", case)
        return ("wrong-computations", tuple(sorted(generated)))

    def scope_ok(constraint, expected_names, label, exact=False):
        """hosted: the scope IS the candidate set of the property; elsewhere extra variables are tolerated
        (the reference ignores them, so the score must not depend on them)."""
        got = sorted(v.name for v in constraint.dimensions)
        if set(expected_names) - set(got) or (exact and got != sorted(expected_names)):
            part.violation(f"pipeline|{label}|scope", f"{descr}: {constraint.name} has scope {got} expected {sorted(expected_names)}", case)
            return False
        return True

    def score(constraint, ass, label):
        """the real constraint on one assignment; an exception prevents the stated result"""
        try:
            return True, eval_constraint(constraint, ass)
        except Exception as e:
            part.violation(f"pipeline|{label}|raised|" + exc_sig(e), f"{descr}: {constraint.name} {ass} raised {e!r}", case)
            return False, None

    for c in my_comps:
        cons = generated[c]
        wanted = {"hosted": f"{c}_hosted", "capacity": f"{agent}_capacity", "hosting": f"{agent}_hosting",
                  "comm": f"comm_{agent}_{c}"}
        if set(wanted.values()) - set(cons):
            part.violation("pipeline|constraint-missing", f"{descr}: constraints of repair computation for {c}: {sorted(cons)} "
                           f"expected {sorted(wanted.values())}", case)
            continue
        # hosted: exactly one of the surviving replica holders
        k = cons[wanted["hosted"]]
        if scope_ok(k, [var(c, a) for a in surv[c]], "hosted", exact=True):
            for ass in assignments([v.name for v in k.dimensions]):
                part.count("assignments")
                ok, got = score(k, ass, "hosted")
                if not ok:
                    break
                outcome.append((k.name, tuple(sorted(ass.items())), got))
                if verbose:
                    print(k.name, ass, "->", got)
                if (got == 0) != ref_hosted(ass.values()):
                    s = sum(ass.values())
                    kind = "nonzero-for-exactly-one" if s == 1 else ("zero-for-none" if s == 0 else "zero-for-several")
                    part.violation("pipeline|hosted|" + kind, f"{descr}: {k.name} {ass} scores {got}", case)
                    break
        # capacity: selected footprints fit capacity - footprint of what the agent already hosts
        k = cons[wanted["capacity"]]
        names = {var(c2, agent): c2 for c2 in my_comps}
        if scope_ok(k, names, "capacity"):
            for ass in assignments([v.name for v in k.dimensions]):
                part.count("assignments")
                ok, got = score(k, ass, "capacity")
                if not ok:
                    break
                outcome.append((k.name, tuple(sorted(ass.items())), got))
                sel = sum(fp[names[v]] for v, x in ass.items() if x and v in names)
                fits = ref_capacity_fits([sel], capacity - hosted_fp)
                if verbose:
                    print(k.name, ass, "->", got, "selected", sel, "remaining", capacity - hosted_fp)
                if (got == 0) != fits:
                    kind = ("nonzero-when-fits|" + ("exact-fit" if sel == capacity - hosted_fp else "slack")) if fits else "zero-when-overflow"
                    part.violation("pipeline|capacity|" + kind,
                                   f"{descr}: {k.name} {ass} selects footprint {sel} with remaining capacity "
                                   f"{capacity - hosted_fp} (capacity {capacity}, hosted {hosted_fp}) and scores {got}", case)
                    break
        # hosting: sum of the agent's hosting costs of the selected computations
        k = cons[wanted["hosting"]]
        if scope_ok(k, names, "hosting"):
            for ass in assignments([v.name for v in k.dimensions]):
                part.count("assignments")
                ok, got = score(k, ass, "hosting")
                if not ok:
                    break
                outcome.append((k.name, tuple(sorted(ass.items())), got))
                exp = sum(hosting_cost(names[v]) * x for v, x in ass.items() if v in names)
                if verbose:
                    print(k.name, ass, "->", got, "expected", exp)
                if not close(got, exp):
                    part.violation("pipeline|hosting|sum-mismatch", f"{descr}: {k.name} {ass} scores {got} expected {exp}", case)
                    break
        # communication: load(c, n) * route(agent -> where n is / would be)
        k = cons[wanted["comm"]]
        node = cg.computation(c)
        fixed_terms = [algo_mod.communication_load(node, n) * route(hosts[n]) for n in nbrs[c] if n not in orph]
        cand_terms = [(var(n, a), algo_mod.communication_load(node, n) * route(a))
                      for n in nbrs[c] if n in orph for a in surv[n]]
        # (comm_compare reports a scope that misses a variable the sum depends on)
        for ass in assignments([v.name for v in k.dimensions]):
            part.count("assignments")
            ok, got = score(k, ass, "comm")
            if not ok:
                break
            outcome.append((k.name, tuple(sorted(ass.items())), got))
            if not comm_compare(got, ass, var(c, agent), fixed_terms, cand_terms, "pipeline|comm",
                                f"{descr}: {k.name}", case, part, verbose):
                break
    return tuple(sorted(outcome))  # order-free: scope order follows set iteration order


def p_state_check(st, menu_idx, part, only_agent=None, verbose=False):
    from pydcop.reparation.removal import _removal_candidate_agents, _removal_candidate_agt_info

    agents, hosts, reps, departed, nbrs = decode_state(st)
    cg = p_graph(st["graph"])[0]
    disc = build_discovery(agents, hosts, reps)
    # as Orchestrator._agents_removal does
    try:
        cands = sorted(_removal_candidate_agents(list(departed), disc))
    except Exception:
        return  # layer R reports it
    for a in cands:
        if only_agent is not None and a != only_agent:
            continue
        if a in departed:
            continue  # layer R reports it
        try:
            info = _removal_candidate_agt_info(a, list(departed), cg, disc)
        except Exception:
            continue  # layer R reports it
        if verbose:
            print("info for", a, ":", info)
        out = p_agent_check(st, menu_idx, a, info, part, verbose)
        part.count("evaluations")
        part.count("pipeline_setups")
        orph = ref_orphans(hosts, departed)
        mine = [c for c in orph if a in reps[c]]
        if any(nbrs[c] for c in mine):
            part.nontriv(("P", repr(st), menu_idx, a))
        part.outcome(("P", out))
        if (len(mine) >= 2 and menu_idx == 1 and st["graph"] == "t3" and st["agents"] == 3 and st["hosts"] == [0, 1, 2]
                and st["reps"][0] == [1, 2]):
            part.sample({"layer": "P", "state": st, "menu": menu_idx, "agent": a, "number_of_scores": len(out),
                         "comm_scores": [o for o in out if str(o[0]).startswith("comm_")][:8]}, cap=1)


def p_jobs(plans):
    jobs = []
    for graph, n, max_rep in plans:
        k = GRAPHS[graph][0]
        for hosting in growth_strings(k, n):
            for r0 in subsets_upto([a for a in range(n) if a != hosting[0]], max_rep):
                for menu_idx in range(len(P_MENUS)):
                    jobs.append(("P", graph, n, max_rep, 2, hosting, r0, menu_idx))
    return jobs


def p_shard(job, part):
    _, graph, n, max_rep, max_dep, hosting, r0, menu_idx = job
    for st in r_states(graph, n, max_rep, max_dep, hosting, r0):
        p_state_check(st, menu_idx, part)


# ----------------------------------------------------------------------------- runner API


def shard(job):
    part = Part()
    if job[0] == "R":
        r_shard(job, part)
    elif job[0] == "K":
        k_shard(job, part)
    else:
        p_shard(job, part)
    return part


def run(ctx):
    ctx.level = "exploration"
    r_plans = R_PLANS_QUICK if ctx.quick else R_PLANS_THOROUGH
    p_plans = P_PLANS_QUICK if ctx.quick else P_PLANS_THOROUGH
    ctx.rule = (
        "R: for every (graph, #agents, max replica-set size, max departed size) in "
        f"{r_plans}: every hosting map up to agent renaming (restricted growth strings) x every replica set per computation "
        "among the non-hosting agents x every non-empty departed subset; the real _removal_orphaned_computations / "
        "_removal_candidate_agents / _removal_candidate_agt_info (for every surviving agent) against set comprehensions on the raw "
        "state; non-trivial = a computation is orphaned and a surviving agent holds its replica. "
        "K: every create_*_constraint input: hosted over 1.." + ("4" if ctx.quick else "8") + " candidates; capacity over every "
        f"footprint vector in {FOOTPRINTS}^k (k<=" + ("4" if ctx.quick else "6") + f") x remaining in {REMAININGS}; hosting over every "
        f"cost vector in {HOSTING_COSTS}^k; communication over 0.." + ("2" if ctx.quick else "3") + " neighbours, each fixed on any of "
        + ("3" if ctx.quick else "4") + " agents or orphaned with any candidate list of size <=2 (also empty), own candidate lists, 3 cost "
        "functions (injective powers of two / load x route with 0 and 0.5 / constant); each evaluated on EVERY binary assignment "
        "of its scope; non-trivial = >=2 candidates / both capacity verdicts must occur / >=2 different non-zero costs / a fixed and a "
        "candidate neighbour together. "
        f"P: for every plan in {p_plans} (same state enumeration, departed size <=2) x 3 agent cost menus: the real candidate info is "
        "given to a real (unstarted) ResilientAgent.setup_repair and every constraint of every generated repair computation is "
        "evaluated on every binary assignment against sums computed from the raw state; non-trivial = the agent is candidate "
        "for a computation that has neighbours."
    )
    ctx.assumptions = [
        "Hosting maps are enumerated up to renaming of agents (the removal code never inspects agent names); set-iteration "
        "order effects are exercised through PYTHONHASHSEED = VERIF_SEED mod 8.",
        "Every computation of the graph is registered in the discovery (a neighbour nobody hosts has no defined fixed host).",
        "Layer P trusts AgentDef.route/hosting_cost (C31), the algorithm module's computation_memory/communication_load (dsa) "
        "and the 'B<computation>_<agent>' naming of create_binary_variables; the agent is never started (no threads).",
        "random.random in pydcop.infrastructure.agents (initial values of the repair variables) is rebound to a constant.",
    ]
    jobs = r_jobs(r_plans) + [("K", i, 32, ctx.quick) for i in range(32)] + p_jobs(p_plans)
    ctx.pmap(shard, ctx.rotate(jobs))


def replay(case):
    part = Part()
    if case["layer"] == "R":
        print(r_state_check(case["state"], part, verbose=True))
    elif case["layer"] == "K":
        try:
            print(K_FUNCS[case["kind"]](case, part, verbose=True))
        except Exception as e:
            if not raised_in_pydcop(e):
                raise
            print("raised", repr(e))
            return True
    else:
        p_state_check(case["state"], case["menu"], part, only_agent=case["agent"], verbose=True)
    for v in part.violations:
        print(v["key"], "::", v["what"])
    return bool(part.violations)
