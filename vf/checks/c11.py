"""C11 Relations evaluate and slice consistently with their definition.

Bounded-exhaustive enumeration (E2) of relation constructions x partial assignments x slicing sequences on the
real relation classes, against a reference model that is a plain Python function of a role->value assignment.

Hash-seed dimension: every run executes the whole enumeration in sub-processes started with PYTHONHASHSEED in
HASH_SEEDS (set iteration order of ExpressionFunction.exp_vars depends on it); the parent process (whose own hash seed
is VERIF_SEED mod 8) evaluates nothing, so verdict and counts do not depend on VERIF_SEED.
"""
import functools
import hashlib
import itertools
import json
import math
import os
import shutil
import subprocess
import sys
import tempfile

from vf.core.runner import Part

HASH_SEEDS = [0, 1, 2, 3, 7]
INF = float("inf")

# four "roles"; a relation is defined over a subset of them.  One representative per shortcut: falsy values (0, ''),
# str values, one domain of size 3, one domain whose values are neither sorted nor equal to their index.
DOMAINS = {0: [0, 1], 1: ["", "b"], 2: [0, 1, 2], 3: [5, 2]}
POOL = ["x", "y", "z", "w"]
POOL2 = ["v2", "v10", "B", "a_1"]  # sorted order differs from numeric order, upper case, underscore
STRIDE = {0: 1, 1: 2, 2: 4, 3: 12}
PALETTE = [0, INF, 1, -INF, 2 ** 31, 0.5, -3]  # "hard" table: infinities, a tie, 2**31, a float, a negative
UNSET = "<unset>"

# ----------------------------------------------------------------------------------------------------------------
# reference model: the value of every relation kind as a function of {role: value}


# cost of a role's value = WEIGHT[role][index of the value]; written with indicator terms only, so that a value landing
# on the wrong argument gives a wrong NUMBER (never a TypeError from adding str and int): one symptom per root cause.
WEIGHT = {0: [0, 1], 1: [0, 2.5], 2: [0, -7, -14], 3: [5 * 2 ** 40, 2 ** 31]}


def term(r, v):
    return sum(w for val, w in zip(DOMAINS[r], WEIGHT[r]) if v == val)


def num(r, v):
    """0/1 code used by the condition family: is the value the second one of the role's domain?"""
    return int(v == DOMAINS[r][1])


def term_txt(r, n):
    return " + ".join(f"{w!r}*({n} == {val!r})" for val, w in zip(DOMAINS[r], WEIGHT[r]) if w != 0)


def num_txt(r, n):
    return f"({n} == {DOMAINS[r][1]!r})"


def family(kind, variant):
    if kind == "zeroary":
        return "const"
    return {"A": "cost", "ret": "cost", "partial": "costP", "B": "hard", "cond": "cond", "0": "zero", "b": "bool"}[variant]


def ref_value(leaf, asg):
    """Value of a leaf relation for a full assignment {role: value} (extra roles are ignored)."""
    kind, roles, variant = leaf
    rs = sorted(roles)
    fam = family(kind, variant)
    if fam == "const":
        return {"A": 42, "T": True, "F": 0}[variant]
    if fam == "cost":
        return sum(term(r, asg[r]) for r in rs)
    if fam == "costP":
        return sum(term(r, asg[r]) for r in rs) + 1000
    if fam == "hard":
        return PALETTE[sum(STRIDE[r] * DOMAINS[r].index(asg[r]) for r in rs) % len(PALETTE)]
    if fam == "zero":
        return 0
    if fam == "bool":
        return bool(asg[rs[0]])
    if fam == "cond":
        if len(rs) == 1:
            return num(rs[0], asg[rs[0]]) == 1
        return num(rs[0], asg[rs[0]]) + 2 * num(rs[1], asg[rs[1]]) == 2
    raise ValueError(fam)


def value_txt(fam, roles, ident, in_list_order=False):
    """Python source of the same value, over identifiers ident[role]."""
    rs = sorted(roles)
    if fam in ("cost", "costP"):
        return " + ".join(term_txt(r, ident[r]) for r in (roles if in_list_order else rs))
    if fam == "cond":
        if len(rs) == 1:
            return f"{num_txt(rs[0], ident[rs[0]])} == 1"
        return f"{num_txt(rs[0], ident[rs[0]])} + 2*{num_txt(rs[1], ident[rs[1]])} == 2"
    raise ValueError(fam)


def spec_scope(spec):
    if spec[0] == "leaf":
        return sorted(spec[1][1])
    return sorted(set(spec[1][1]) | set(spec[2][1]))


def spec_value(spec, asg):
    if spec[0] == "leaf":
        return ref_value(spec[1], asg)
    return ref_value(spec[2], asg) if ref_value(spec[1], asg) else 0


def same(a, b):
    try:
        if a == b:
            return True
        fa, fb = float(a), float(b)
        return abs(fa - fb) <= 1e-9 * max(1, abs(fa), abs(fb))
    except Exception:  # noqa
        return False


# ----------------------------------------------------------------------------------------------------------------
# building the real relations

EXT_SRC = "def cost(r0=None, r1=None, r2=None, r3=None):\n    t = 0\n" + "".join(
    f"    if r{r} is not None:\n        t = t + {term_txt(r, 'r%d' % r)}\n" for r in range(4)
) + "    return t\n"
_TMP = {}


def ext_source_file():
    if "dir" not in _TMP:
        _TMP["dir"] = tempfile.mkdtemp(prefix="c11_src_")
        with open(os.path.join(_TMP["dir"], "c11_ext_costs.py"), "w") as f:
            f.write(EXT_SRC)
    return os.path.join(_TMP["dir"], "c11_ext_costs.py")


def cleanup_tmp():
    if "dir" in _TMP:
        shutil.rmtree(_TMP.pop("dir"), ignore_errors=True)


def gen_func(args, body):
    ns = {}
    exec(f"def f({', '.join(args)}):\n    return {body}", {}, ns)
    return ns["f"]


def matrix_for(leaf, roles):
    def rec(i, asg):
        if i == len(roles):
            return ref_value(leaf, asg)
        return [rec(i + 1, {**asg, roles[i]: v}) for v in DOMAINS[roles[i]]]

    return rec(0, {})


_VARS = {}


def variables(names):
    from pydcop.dcop.objects import Variable

    key = tuple(names)
    if key not in _VARS:
        _VARS[key] = {r: Variable(names[r], list(DOMAINS[r])) for r in range(4)}
    return _VARS[key]


def expression_text(leaf, names):
    kind, roles, variant = leaf
    fam = family(kind, variant)
    if kind == "expr_arg":
        return value_txt(fam, roles, {r: f"a{r}" for r in roles})
    if kind == "expr_ext":
        return "source.cost(" + ", ".join(f"r{r}={names[r]}" for r in sorted(roles)) + ")"
    if variant == "ret":
        rs = sorted(roles)
        first = term_txt(rs[0], names[rs[0]])
        rest = "".join(" + " + term_txt(r, names[r]) for r in rs[1:])
        return f"_acc = {first}\nreturn _acc{rest}"
    # expr_pos (no f_kwargs, an ExpressionFunction has keyword arguments only): the variables are listed in the order
    # of their first appearance in the expression, so that "by name" and "by position" mean the same relation
    return value_txt(fam, roles, {r: names[r] for r in roles}, in_list_order=(kind == "expr_pos"))


def build_leaf(leaf, names, rel_name="rel"):
    from pydcop.dcop import relations as R
    from pydcop.utils.expressionfunction import ExpressionFunction

    kind, roles, variant = leaf
    V = variables(names)
    vs = [V[r] for r in roles]
    fam = family(kind, variant)
    if kind == "matrix":
        return R.NAryMatrixRelation(vs, matrix_for(leaf, list(roles)), name=rel_name)
    if kind == "expr_kw":
        return R.NAryFunctionRelation(ExpressionFunction(expression_text(leaf, names)), vs, name=rel_name, f_kwargs=True)
    if kind == "expr_pos":
        return R.NAryFunctionRelation(ExpressionFunction(expression_text(leaf, names)), vs, name=rel_name)
    if kind == "expr_str":
        pool = vs + [V[r] for r in range(4) if r not in roles]
        return R.constraint_from_str(rel_name, expression_text(leaf, names), pool)
    if kind == "expr_ext":
        pool = vs + [V[r] for r in range(4) if r not in roles]
        return R.constraint_from_external_definition(rel_name, ext_source_file(), expression_text(leaf, names), pool)
    if kind == "expr_arg":
        # documented use without f_kwargs: argument names differ from the variable names, variables are listed in
        # the order of the function's arguments (= f.variable_names)
        f = ExpressionFunction(expression_text(leaf, names))
        return R.NAryFunctionRelation(f, [V[int(a[1:])] for a in f.variable_names], name=rel_name)
    if kind == "py_pos":
        ident = {r: f"a{r}" for r in roles}
        if variant == "partial":
            g = gen_func([ident[r] for r in roles] + ["extra"], value_txt(fam, roles, ident) + " + extra")
            return R.NAryFunctionRelation(functools.partial(g, extra=1000), vs, name=rel_name)
        return R.NAryFunctionRelation(gen_func([ident[r] for r in roles], value_txt(fam, roles, ident)), vs, name=rel_name)
    if kind == "py_kw":
        ident = {r: names[r] for r in roles}
        f = gen_func([ident[r] for r in sorted(roles)], value_txt(fam, roles, ident))
        return R.NAryFunctionRelation(f, vs, name=rel_name, f_kwargs=True)
    if kind == "py_kwargs":
        expected = {names[r]: r for r in roles}

        def f(**kw):
            if set(kw) != set(expected):
                raise TypeError(f"arguments {sorted(kw)} given, {sorted(expected)} expected")
            return ref_value(leaf, {expected[n]: v for n, v in kw.items()})

        return R.NAryFunctionRelation(f, vs, name=rel_name)
    if kind == "neutral":
        return R.NeutralRelation(vs, name=rel_name)
    if kind == "unary_lambda":
        r0 = roles[0]
        return R.UnaryFunctionRelation(rel_name, vs[0], lambda v: ref_value(leaf, {r0: v}))
    if kind == "unary_expr":
        return R.UnaryFunctionRelation(rel_name, vs[0], ExpressionFunction(expression_text(leaf, names)))
    if kind == "boolean":
        return R.UnaryBooleanRelation(rel_name, vs[0])
    if kind == "zeroary":
        return R.ZeroAryRelation(rel_name, ref_value(leaf, {}))
    raise ValueError(kind)


def build(spec, names):
    if spec[0] == "leaf":
        return build_leaf(spec[1], names)
    from pydcop.dcop.relations import ConditionalRelation

    return ConditionalRelation(
        build_leaf(spec[1], names, "cnd"), build_leaf(spec[2], names, "csq"), name="crel", return_neutral=bool(spec[3])
    )


# ----------------------------------------------------------------------------------------------------------------
# the enumerated space

NARY_KINDS = [
    ("matrix", ["A", "B"]),
    ("neutral", ["0"]),
    ("py_kwargs", ["A"]),
    ("py_pos", ["A", "partial"]),
    ("py_kw", ["A"]),
    ("expr_kw", ["A", "ret"]),
    ("expr_pos", ["A"]),
    ("expr_str", ["A"]),
    ("expr_arg", ["A"]),
    ("expr_ext", ["A"]),
]
ORDER_FREE = ("expr_arg",)  # the variable list is dictated by f.variable_names: one construction per role subset
HASH_KINDS = ("expr_kw", "expr_pos", "expr_str", "expr_arg", "expr_ext", "unary_expr")


def name_maps(tier, wide, k):
    """role -> name maps.  `wide`: the relation kind looks at names (sets of names, sorting by name).
    All variable-list orders are enumerated for every map, so every relative order of list, name set and sorted
    names occurs already with one map; more maps add other name sets."""
    perms = [list(p) for p in itertools.permutations(POOL)]
    if tier == "quick":
        return [perms[0], perms[-1]] if wide and k <= 2 else [perms[0]]
    if not wide:
        return [perms[0], list(POOL2)] if k <= 3 else [perms[0]]
    if k <= 2:
        return perms + [list(POOL2), list(reversed(POOL2))]
    if k == 3:
        return perms[::4] + [list(POOL2), list(reversed(POOL2))]
    return [perms[-1], list(POOL2)]


def leaf_specs(tier):
    """(leaf, wide) simplest first."""
    out = [(("zeroary", (), "A"), False)]
    for r in range(4):
        for kind, variant in (("unary_lambda", "A"), ("boolean", "b"), ("unary_expr", "A")):
            out.append(((kind, (r,), variant), kind == "unary_expr"))
    for k in (1, 2, 3, 4):
        for kind, variants in NARY_KINDS:
            for variant in variants:
                if variant == "B" and k == 1:
                    continue
                if tier == "quick" and k == 4 and (kind, variant) != ("expr_kw", "A"):
                    continue  # arity 4 is the expensive end
                for sub in itertools.combinations(range(4), k):
                    orders = [sub] if kind in ORDER_FREE else list(itertools.permutations(sub))
                    for roles in orders:
                        out.append(((kind, tuple(roles), variant), kind.startswith("expr")))
    return out


# condition scope -> consequence scopes (variable-list orders): disjoint, overlapping, nested both ways, equal
COND_SCOPES_QUICK = {
    (): [(0,), (1, 0)],
    (0,): [(), (0,), (1,), (0, 1), (1, 2)],
    (0, 1): [(), (1,), (2,), (1, 0), (1, 2)],
    (1, 0): [(0,), (0, 1), (2, 0)],
}
COND_SCOPES_THOROUGH = {
    (): [(), (0,), (0, 1), (1, 0), (2, 1, 0)],
    (0,): [(), (0,), (1,), (0, 1), (1, 0), (1, 2), (2, 1), (1, 2, 3), (3, 0, 2)],
    (3,): [(3,), (2, 3), (3, 1)],
    (0, 1): [(), (0,), (1,), (2,), (0, 1), (1, 0), (1, 2), (2, 1), (0, 2), (2, 0), (2, 3), (1, 3), (3, 0, 2)],
    (1, 0): [(), (0,), (1,), (2,), (0, 1), (1, 0), (1, 2), (2, 1), (0, 2), (2, 0), (3, 2), (3, 0)],
    (2, 3): [(2,), (0,), (3, 2), (2, 1), (0, 1)],
    (3, 2): [(2, 3), (0, 3)],
}
COND_KINDS = {
    0: [("zeroary", "T"), ("zeroary", "F")],
    1: [("boolean", "b"), ("unary_lambda", "cond"), ("neutral", "0"), ("matrix", "cond"), ("expr_kw", "cond")],
    2: [("expr_kw", "cond"), ("matrix", "cond"), ("py_kwargs", "cond")],
}
CONS_KINDS = {
    0: [("zeroary", "A")],
    1: [("unary_lambda", "A"), ("matrix", "A"), ("expr_kw", "A"), ("neutral", "0"), ("boolean", "b")],
    2: [("matrix", "A"), ("expr_kw", "A"), ("py_kwargs", "A"), ("neutral", "0")],
    3: [("matrix", "A"), ("py_kwargs", "A")],
}


def cond_specs(tier):
    table = COND_SCOPES_QUICK if tier == "quick" else COND_SCOPES_THOROUGH
    out = []
    for a, bs in table.items():
        for b in bs:
            for ck, cv in COND_KINDS[len(a)]:
                for qk, qv in CONS_KINDS[len(b)]:
                    for rn in (0, 1):
                        out.append(("cond", (ck, tuple(a), cv), (qk, tuple(b), qv), rn))
    return out


def hash_sensitive(spec):
    """Does the relation contain a kind that iterates over a set of names (the expression kinds)?"""
    return any(leaf[0] in HASH_KINDS for leaf in spec[1:3] if isinstance(leaf, tuple))


def relation_specs(tier, hs):
    """All (spec, names) pairs evaluated under hash seed hs, simplest first.  Relations containing an expression kind
    are evaluated under every seed of HASH_SEEDS, the others (no set in sight) under the first two."""
    out = []
    for leaf, wide in leaf_specs(tier):
        for nm in name_maps(tier, wide, len(leaf[1])):
            out.append((("leaf", leaf), nm))
    for spec in cond_specs(tier):
        k = len(spec_scope(spec))
        perms = [list(p) for p in itertools.permutations(POOL)]
        if tier == "quick":
            maps = [perms[0], perms[-1]] if k <= 2 else [perms[-1]]
        else:
            maps = [perms[0], perms[-1], perms[9], perms[14]] if k <= 3 else [perms[0], list(POOL2)]
        for nm in maps:
            out.append((spec, nm))
    out = [sn for sn in out if hs in (HASH_SEEDS if hash_sensitive(sn[0]) else HASH_SEEDS[:2])]
    out.sort(key=lambda sn: len(spec_scope(sn[0])))  # stable: simplest first
    return out


def partial_assignments(scope):
    """All {role: value} over subsets of scope, fewest assigned first."""
    out = []
    for combo in itertools.product(*[[UNSET] + DOMAINS[r] for r in scope]):
        out.append({r: v for r, v in zip(scope, combo) if v != UNSET})
    out.sort(key=len)
    return out


def ordered_partitions(items, maxblocks=3):
    out = []
    for b in range(1, min(maxblocks, len(items)) + 1):
        for assign in itertools.product(range(b), repeat=len(items)):
            if len(set(assign)) == b:
                out.append([[it for it, a in zip(items, assign) if a == i] for i in range(b)])
    return out


def sequences(sliced, tier, arity):
    """Slicing sequences for the set of sliced roles: lists of steps, a step = list of roles in dict-insertion order.
    [] = no slicing at all (plain evaluation); [[]] = one slice with an empty assignment."""
    if not sliced:
        return [[], [[]]]
    if tier == "quick":
        out = ordered_partitions(sliced, 3 if arity <= 3 else 2)
        out.append([[], list(sliced)])  # an empty slice first
        return out
    out = ordered_partitions(sliced, 3)
    out += [[[]] + p for p in ordered_partitions(sliced, 2)]
    if len(sliced) >= 2:
        out.append([list(reversed(sliced))])  # same one-step slice, assignment dict built in the reverse order
    return out


# ----------------------------------------------------------------------------------------------------------------
# one case = (hash seed of this process, relation spec, names, partial assignment, slicing sequence)


def kind_label(spec):
    return "conditional" if spec[0] == "cond" else spec[1][0]


_CACHE = {}


def order_qualifier(spec, names):
    """For expression kinds: is the variable list in the iteration order of the expression's name set?"""
    if spec[0] != "leaf" or spec[1][0] not in ("expr_kw", "expr_pos") or len(spec[1][1]) < 2:
        return ""
    key = ("oq", spec, tuple(names))
    if key not in _CACHE:
        from pydcop.utils.expressionfunction import ExpressionFunction

        so = ExpressionFunction(expression_text(spec[1], names)).variable_names
        same_order = list(so) == [names[r] for r in spec[1][1]]
        _CACHE[key] = "|listorder=setorder" if same_order else "|listorder!=setorder"
    return _CACHE[key]


def run_case(spec, names, p, seq, log=None, rel=None):
    """Executes one case on the real code.  Returns (violation or None, observation).
    violation = (symptom, sentence, number of non-empty slices applied when it showed)."""
    say = log or (lambda *a: None)
    scope = spec_scope(spec)
    if rel is None:
        rel = build(spec, names)
    say("relation:", repr(rel))
    cur = rel
    assigned = set()
    done = 0
    cond_roles = set(spec[1][1]) if spec[0] == "cond" else None
    documented_zero = False
    for step in seq:
        pa = {names[r]: p[r] for r in step}
        done += 1 if step else 0
        try:
            cur = cur.slice(pa)
        except Exception as e:  # noqa
            return ("raised=" + type(e).__name__, f"slice({pa}) raised {type(e).__name__}: {e}", done), None
        assigned |= set(step)
        try:
            dims = [v.name for v in cur.dimensions]
        except Exception as e:  # noqa
            return ("raised=" + type(e).__name__, f"dimensions after slice({pa}) raised {type(e).__name__}: {e}", done), None
        say(f"  slice({pa}) ->", type(cur).__name__, dims)
        if (
            cond_roles is not None and not spec[3] and cond_roles <= assigned
            and not ref_value(spec[1], p) and dims == []
        ):
            # documented: with return_neutral=False a false condition slices to a ZeroAryRelation (no dimensions)
            documented_zero = True
            break
        # every prefix of a slicing sequence is a slicing sequence: exactly the not yet assigned variables remain
        left = sorted(names[r] for r in scope if r not in assigned)
        if sorted(dims) != left:
            return ("dims", f"after slice({pa}) the dimensions are {dims}, expected exactly {left}", done), None
    try:
        dims = [v.name for v in cur.dimensions]
    except Exception as e:  # noqa
        return ("raised=" + type(e).__name__, f"dimensions raised {type(e).__name__}: {e}", done), None
    remaining = [] if documented_zero else [r for r in scope if r not in assigned]
    if sorted(dims) != sorted(names[r] for r in remaining):
        return ("dims", f"dimensions {dims}, expected exactly {sorted(names[r] for r in remaining)}", done), None
    by_name = {names[r]: r for r in remaining}
    values = []
    for combo in itertools.product(*[DOMAINS[r] for r in remaining]):
        comp = dict(zip(remaining, combo))
        full = {r: v for r, v in p.items() if r in assigned}
        full.update(comp)
        if documented_zero:
            exp = 0
        else:
            exp = spec_value(spec, full)
        c_names = {names[r]: v for r, v in comp.items()}
        ordered = [comp[by_name[n]] for n in dims]
        if dims:
            forms = [
                ("kw", lambda: cur(**c_names)),
                ("pos", lambda: cur(*ordered)),
                ("dict", lambda: cur.get_value_for_assignment(dict(c_names))),
                ("list", lambda: cur.get_value_for_assignment(list(ordered))),
            ]
        else:
            forms = [
                ("call", lambda: cur()),
                ("dict", lambda: cur.get_value_for_assignment({})),
                ("list", lambda: cur.get_value_for_assignment([])),
            ]
        got, bad, exc = {}, [], None
        for fname, fn in forms:
            try:
                got[fname] = fn()
            except Exception as e:  # noqa
                exc = exc or (fname, e)
                got[fname] = f"<{type(e).__name__}>"
                bad.append(fname)
                continue
            if not same(got[fname], exp):
                bad.append(fname)
        say(f"  completion {c_names}: expected {exp!r} got { {k: _plain(v) for k, v in got.items()} }")
        if bad:
            shown = {k: _plain(v) for k, v in got.items()}
            if exc is not None:
                sym = "raised=" + type(exc[1]).__name__
                what = f"{exc[0]} call with {c_names} raised {type(exc[1]).__name__}: {exc[1]}"
            else:
                sym = "value" if len(bad) == len(forms) else "value:" + "+".join(bad)
                what = f"with {c_names} (dimension order {dims}) got {shown}, expected {exp!r}"
            return (sym, what, done), None
        values.append(_plain(got[forms[0][0]]))
    return None, (len(dims), tuple(repr(v) for v in values), documented_zero)


def _plain(v):
    try:
        import numpy as np

        if isinstance(v, (np.generic, np.ndarray)):
            return v.item()
    except Exception:  # noqa
        pass
    return v


def restrict(seq, roles):
    out = [[r for r in step if r in roles] for step in seq]
    return [s for s in out if s] or ([[]] if seq else [])


def cached_case(spec, names, p, seq):
    key = ("case", spec, tuple(names), tuple(sorted(p.items())), tuple(tuple(x) for x in seq))
    if key not in _CACHE:
        try:
            _CACHE[key] = run_case(spec, names, p, seq)[0]
        except Exception:  # noqa
            _CACHE[key] = None
        if len(_CACHE) > 200000:
            _CACHE.clear()
    return _CACHE.get(key)


def violation_key(spec, names, p, seq, viol):
    """Signature of the root cause, computed from the counterexample only."""
    sym, _, done = viol
    phase = "eval" if done == 0 else "slice"
    if phase == "slice":
        # wrong before any slicing?  then slicing is not the cause
        v = cached_case(spec, names, {}, [])
        if v is not None and v[0] == sym:
            phase = "eval"
    if spec[0] == "cond":
        # blame: does a component alone already break in the same way on the same slicing steps?
        for leaf in (spec[2], spec[1]):
            lp = {r: v for r, v in p.items() if r in leaf[1]}
            v = cached_case(("leaf", leaf), names, lp, restrict(seq, set(leaf[1])))
            if v is not None and v[0] == sym:
                return f"{phase}|conditional|inherited-from={leaf[0]}|{sym}"
    key = f"{phase}|{kind_label(spec)}|{sym}"
    if phase == "slice":
        key += "|steps=1" if done == 1 else "|steps>1"
    if sym.startswith("raised"):
        return key  # the exception type is the signature
    key += order_qualifier(spec, names)
    if spec[0] == "cond":
        croles, qroles = set(spec[1][1]), set(spec[2][1])
        got = croles & set(p)
        if croles and not got:
            state = "unassigned"
        elif got != croles:
            state = "partial"
        else:
            state = "true" if ref_value(spec[1], p) else "false"
        # the true branch deals with the consequence's variables, the false branch with return_neutral
        key += f"|cond={state}"
        if state == "true":
            key += f"|shared-vars={int(bool(croles & qroles))}"
        if state == "false":
            key += f"|return_neutral={int(bool(spec[3]))}"
    return key


def case_dict(hs, spec, names, p, seq):
    return {
        "hashseed": hs,
        "spec": spec,
        "names": list(names),
        "partial": [[r, v] for r, v in sorted(p.items())],
        "sequence": [list(s) for s in seq],
    }


def describe(spec, names):
    def leaf_txt(leaf):
        kind, roles, variant = leaf
        t = f"{kind}/{variant}[{','.join(names[r] for r in roles)}]"
        if kind.startswith("expr") or kind == "unary_expr":
            t += f" expr={expression_text(leaf, names)!r}"
        return t

    if spec[0] == "leaf":
        return leaf_txt(spec[1])
    return f"Conditional(if {leaf_txt(spec[1])} then {leaf_txt(spec[2])}, return_neutral={bool(spec[3])})"


def explore(tier, hs, idx, n):
    """Worker body: the share idx/n of the relation specs, every partial assignment, every slicing sequence."""
    res = {"counters": {}, "maxima": {}, "nontriv": set(), "outcomes": set(), "violations": {}, "samples": []}

    def count(name, k=1):
        res["counters"][name] = res["counters"].get(name, 0) + k

    def h(token):
        return hashlib.blake2b(repr(token).encode(), digest_size=8).hexdigest()

    from pydcop.utils.expressionfunction import ExpressionFunction

    for i, (spec, names) in enumerate(relation_specs(tier, hs)):
        if i % n != idx:
            continue
        count("relations")
        count("relations_" + ("conditional" if spec[0] == "cond" else spec[1][0]))
        scope = spec_scope(spec)
        res["maxima"]["arity"] = max(res["maxima"].get("arity", 0), len(scope))
        if spec[0] == "leaf" and spec[1][0] in ("expr_kw", "expr_pos") and len(scope) >= 2:
            so = ExpressionFunction(expression_text(spec[1], names)).variable_names
            lo = [names[r] for r in spec[1][1]]
            count("setperm/k=%d/%s" % (len(scope), "".join(str(lo.index(a)) for a in so)))
        # one relation object serves all cases of its spec (relations are immutable by contract; checked below)
        rel0 = build(spec, names)
        before = run_case(spec, names, {}, [], rel=rel0)
        for p in partial_assignments(scope):
            for seq in sequences(sorted(p), tier, len(scope)):
                viol, obs = run_case(spec, names, p, seq, rel=rel0)
                count("evaluations")
                count("slice_steps", len(seq))
                if len(scope) >= 2 and p:
                    res["nontriv"].add(h((hs, spec, names, sorted(p.items()))))
                if viol is None:
                    res["outcomes"].add(h(obs))
                    if obs[2]:
                        count("documented_zeroary_on_false_condition")
                    if len(res["samples"]) < 2 and len(scope) >= 2 and len(seq) >= 2 and obs[0] >= 1:
                        res["samples"].append(
                            {"hashseed": hs, "relation": describe(spec, names), "partial": {names[r]: v for r, v in p.items()},
                             "sequence": [[names[r] for r in s] for s in seq], "values_on_completions": list(obs[1])}
                        )
                    continue
                sym, what, _ = viol
                res["outcomes"].add(h(("violation", sym)))
                key = violation_key(spec, names, p, seq, viol)
                sentence = (
                    f"PYTHONHASHSEED={hs} {describe(spec, names)} sliced by "
                    f"{[{names[r]: p[r] for r in s} for s in seq]}: {what}"
                )
                case = case_dict(hs, spec, names, p, seq)
                size = (len(json.dumps(case)), json.dumps(case, sort_keys=True))
                cur = res["violations"].get(key)
                if cur is None:
                    res["violations"][key] = {"key": key, "what": sentence, "case": case, "n": 1, "_size": size}
                else:
                    cur["n"] += 1
                    if size < cur["_size"]:
                        cur.update({"what": sentence, "case": case, "_size": size})
        after = run_case(spec, names, {}, [], rel=rel0)
        if (before[0] is None) != (after[0] is None) or (before[0] is None and before[1] != after[1]):
            key = f"slice|{kind_label(spec)}|original-relation-changed-by-slicing"
            case = dict(case_dict(hs, spec, names, {}, []), guard=tier)
            res["violations"].setdefault(key, {
                "key": key, "n": 0, "case": case, "_size": (0, ""),
                "what": f"PYTHONHASHSEED={hs} {describe(spec, names)}: evaluating the unsliced relation gave {before} before "
                        f"and {after} after all slicing sequences were applied to the same object",
            })["n"] += 1
    cleanup_tmp()
    out = dict(res)
    out["nontriv"] = sorted(res["nontriv"])
    out["outcomes"] = sorted(res["outcomes"])
    out["violations"] = [{k: v for k, v in d.items() if k != "_size"} for d in res["violations"].values()]
    return out


# ----------------------------------------------------------------------------------------------------------------
# parent side: every shard is a sub-process with its own PYTHONHASHSEED


def tuplify(x):
    return tuple(tuplify(i) for i in x) if isinstance(x, list) else x


def child_env(hs):
    import pydcop

    repo = os.path.dirname(os.path.dirname(os.path.abspath(pydcop.__file__)))
    root = os.path.dirname(os.path.dirname(os.path.dirname(os.path.abspath(__file__))))
    env = dict(os.environ)
    env["PYTHONHASHSEED"] = str(hs)
    env["PYTHONPATH"] = repo + os.pathsep + root
    env["PYTHONDONTWRITEBYTECODE"] = "1"
    env["PYTHONWARNINGS"] = "ignore"
    return env, repo


def shard(item):
    hs, idx, n, tier = item
    env, repo = child_env(hs)
    r = subprocess.run(
        [sys.executable, "-m", "vf.checks.c11", "worker", tier, str(hs), str(idx), str(n), repo],
        env=env, stdout=subprocess.PIPE, stderr=subprocess.PIPE, text=True,
    )
    if r.returncode != 0:
        raise RuntimeError(f"worker hashseed={hs} shard={idx}/{n} failed (rc={r.returncode}):\n{r.stderr[-3000:]}")
    res = json.loads(r.stdout)
    part = Part()
    for k, v in res["counters"].items():
        part.count(k, v)
    for k, v in res["maxima"].items():
        part.maxi(k, v)
    for t in res["nontriv"]:
        part.nontriv(t)
    for t in res["outcomes"]:
        part.outcome(t)
    for s in res["samples"]:
        part.sample(s, cap=1)
    for v in res["violations"]:
        part.violations.append({"key": v["key"], "what": v["what"], "case": v["case"], "n": v["n"]})
    return part


def run(ctx):
    ctx.level = "exploration"
    nshard = 6 if ctx.quick else 16  # x 5 hash seeds = 30 / 80 sub-processes
    ctx.rule = (
        "every run = the same enumeration in sub-processes with PYTHONHASHSEED in %s (the parent evaluates nothing): relations "
        "containing an expression kind under all of them, the others under the first two. Relations: zero-ary, unary (lambda / "
        "ExpressionFunction), boolean, and for every non-empty subset of 4 roles (domains [0,1], ['','b'], [0,1,2], [5,2]) in "
        "EVERY variable-list order: matrix (injective table; table with +-inf, a tie, 2**31), neutral, python function "
        "(positional arg names / functools.partial / f_kwargs=True / **kwargs), expression (f_kwargs=True; with a return "
        "statement; f_kwargs=False with variables listed in order of appearance; constraint_from_str; arguments renamed and "
        "listed in variable_names order; external source file); conditionals = condition kind x consequence kind x "
        "return_neutral over disjoint/overlapping/nested/equal scopes; role->name maps: %s. Per relation: every partial "
        "assignment (incl. empty and full) x every ordered partition of the sliced set into <=3 slice() steps (quick: + an empty "
        "slice before the one-step slice, <=2 steps at arity 4; thorough: + a leading empty step on all <=2-step partitions, + "
        "reversed dict order). After every step the relation must have exactly the not yet assigned dimensions; the final "
        "relation must equal the reference function on every completion through kwargs, positional (dimensions order), "
        "get_value_for_assignment(dict) and (list). Quick: arity 4 only for expression/f_kwargs=True, conditionals over <=3 "
        "variables; thorough: all kinds at arity 4, conditionals over <=4 variables. Non-trivial = arity >= 2 and a non-empty "
        "partial assignment."
        % (HASH_SEEDS, "1-2 maps" if ctx.quick else "all 24 permutations of x,y,z,w + a second name pool at arity <=2, 8 maps at "
           "arity 3, 2 at arity 4 (expression kinds); 1-4 maps otherwise")
    )
    ctx.assumptions = [
        "Documented exception accepted: ConditionalRelation(return_neutral=False).slice with a false, fully assigned condition "
        "returns a ZeroAryRelation without dimensions (class docstring); only its value 0 is checked (counted as "
        "documented_zeroary_on_false_condition).",
        "Python's set iteration order is a function of PYTHONHASHSEED and the insertion history only (sub-processes with the same "
        "seed behave identically).",
        "One relation object per (relation, names) serves all its cases (relations are documented immutable); the unsliced "
        "relation is re-evaluated after the last case and a difference is reported (key ...|original-relation-changed-by-slicing). "
        "A replay always rebuilds the relation.",
        "Inputs the docstrings exclude are not enumerated: slicing on foreign variable names, python functions whose positional "
        "argument order differs from the variable list (without f_kwargs), variable names that are Python builtins or start with 'source'.",
    ]
    items = [(hs, idx, nshard, ctx.tier) for idx in range(nshard) for hs in HASH_SEEDS]
    ctx.pmap(shard, ctx.rotate(items))
    # set orders (relative to the variable-list order) observed for the expression kinds, per arity
    perms = {}
    for name in [c for c in ctx.part.counters if c.startswith("setperm/")]:
        _, k, perm = name.split("/")
        perms.setdefault(k, set()).add(perm)
        del ctx.part.counters[name]
    ctx.extra["hash_seeds"] = list(HASH_SEEDS)
    ctx.extra["set_order_permutations_observed"] = {k: len(v) for k, v in sorted(perms.items())}
    for k, seen in perms.items():
        if len(seen) != math.factorial(int(k.split("=")[1])):
            ctx.exhaustive = False
            ctx.rule += f" CAP: not every set order observed for {k}."


def replay(case):
    """Re-executes the recorded case in a sub-process with the recorded PYTHONHASHSEED."""
    env, repo = child_env(case["hashseed"])
    r = subprocess.run(
        [sys.executable, "-m", "vf.checks.c11", "one", json.dumps(case), repo],
        env=env, stdout=subprocess.PIPE, stderr=subprocess.STDOUT, text=True,
    )
    print(r.stdout, end="")
    if r.returncode not in (0, 1):
        raise RuntimeError("replay sub-process failed")
    return r.returncode == 1


def _check_tree(repo):
    import pydcop

    here = os.path.realpath(pydcop.__file__)
    if not here.startswith(os.path.realpath(repo) + os.sep):
        raise SystemExit(f"pydcop imported from {here}, expected under {repo}")


def _main(argv):
    import logging

    logging.disable(logging.CRITICAL)
    if argv[0] == "worker":
        tier, hs, idx, n, repo = argv[1], int(argv[2]), int(argv[3]), int(argv[4]), argv[5]
        _check_tree(repo)
        if os.environ.get("PYTHONHASHSEED") != str(hs):
            raise SystemExit("PYTHONHASHSEED not set as requested")
        try:
            out = explore(tier, hs, idx, n)
        finally:
            cleanup_tmp()
        sys.stdout.write(json.dumps(out))
        return 0
    if argv[0] == "one":
        case, repo = json.loads(argv[1]), argv[2]
        _check_tree(repo)
        spec = tuplify(case["spec"])
        names = list(case["names"])
        p = {r: v for r, v in case["partial"]}
        seq = [list(s) for s in case["sequence"]]
        print(f"PYTHONHASHSEED={os.environ.get('PYTHONHASHSEED')} {describe(spec, names)}")
        if case.get("guard"):
            rel0 = build(spec, names)
            before = run_case(spec, names, {}, [], rel=rel0)
            scope = spec_scope(spec)
            for p in partial_assignments(scope):
                for seq in sequences(sorted(p), case["guard"], len(scope)):
                    run_case(spec, names, p, seq, rel=rel0)
            after = run_case(spec, names, {}, [], rel=rel0)
            cleanup_tmp()
            print("unsliced relation evaluated before all slicing sequences:", before, "\nand after:", after)
            return 1 if (before[0] is None) != (after[0] is None) or (before[0] is None and before[1] != after[1]) else 0
        try:
            viol, obs = run_case(spec, names, p, seq, log=print)
        finally:
            cleanup_tmp()
        if viol:
            print("VIOLATION:", violation_key(spec, names, p, seq, viol), "::", viol[1])
            return 1
        print("ok:", obs)
        return 0
    raise SystemExit("usage: worker|one")


if __name__ == "__main__":
    sys.exit(_main(sys.argv[1:]))
