"""C01 DPOP returns an optimal assignment on every DCOP and schedule (netx).

Per instance: the real pseudo-tree builder, the real DpopAlgo computations, ALL start orders and per-channel-FIFO
delivery orders (state caching); end-condition on every maximal path against a brute-force optimum.
"""
import itertools

from vf.checks import ls_common
from vf.core import gen, netx
from vf.core.runner import Part


class DpopSpec(netx.Spec):
    def __init__(self, spec):
        self.spec = spec
        self.mode = spec.get("mode", "min")
        self.opt, self.args = gen.brute_force(spec)

    def canon_extra(self, world):
        return tuple(sorted(set(world.finished)))

    # "starts_first" instances (5 variables): computations are started in name order before any delivery, then ALL
    # delivery interleavings are explored (start-order effects are covered exhaustively by the <=4 variable families)
    def start_allowed(self, world, name):
        if not self.spec.get("starts_first"):
            return True
        return name == min(n for n in world.comps if n not in world.started)

    def consuming(self, world, name):
        if not self.spec.get("starts_first"):
            return True
        return len(world.started) == len(world.comps)

    def _desc(self):
        return f"DCOP {self.spec}"

    def check_state(self, world, event, report):
        if world.exception is not None:
            ev, et, msg, where = world.exception
            report(f"C01|handler-raised|{et}|{netx.site(where)}", f"{self._desc()}: event {ev} raised {et}: {msg} at {where}")

    def check_end(self, world, report):
        if world.exception is not None:
            return
        names = sorted(self.spec["vars"])
        notfin = [n for n in names if n not in world.finished]
        if notfin:
            pending = {f"{s}->{d}": len(q) for (s, d), q in world.chans.items()}
            report("C01|not-finished", f"{self._desc()}: quiescent but {notfin} never reported finished; pending {pending}; undeliverable {len(world.undeliverable)}")
            return
        a = {n: world.comps[n].current_value for n in names}
        for n in names:
            if a[n] is None or a[n] not in self.spec["vars"][n]:
                report("C01|value-not-in-domain", f"{self._desc()}: {n} selected {a[n]!r}")
                return
        try:
            a = {n: self.spec["vars"][n][list(self.spec["vars"][n]).index(a[n])] for n in names}
        except ValueError:
            pass
        cost = gen.ref_cost(self.spec, a)
        if not gen.close(cost, self.opt):
            feats = [self.mode]
            if self.spec.get("costs"):
                feats.append("varcosts")
            ar = sorted({len(c["scope"]) for c in self.spec["cons"]})
            feats.append("arity" + "".join(map(str, ar)))
            if len(gen.components(self.spec)) > 1:
                feats.append("disconnected")
            report("C01|not-optimal|" + "+".join(feats), f"{self._desc()}: selected {a} costs {cost}, optimum is {self.opt} at {self.args[:2]}")


def explore(spec, part):
    world, shared, _ = ls_common.build_world(spec, "dpop", {})
    ds = DpopSpec(spec)
    ex = netx.Explorer(ds, shared=shared)

    def report(key, what, w, hist):
        part.violation(key, what, {"spec": spec, "history": netx.unroll(hist)})

    st = ex.run(world, report)
    for k in ("states", "transitions", "traces", "choice_points", "revisits"):
        part.count(k, st[k])
    part.maxi("depth", st["max_depth"])
    part.maxi("states_per_instance", st["states"])
    part.count("evaluations")
    ends = set()
    part.outcome((repr(spec), tuple(sorted(ex.end_digests))))
    if len(spec["cons"]) >= 1 and len(ds.args) < len(list(gen.assignments(spec))):
        part.nontriv(repr(spec))  # the optimum is not trivial: some assignment is sub-optimal
    if st["states"] > 20:
        part.sample({"spec": spec, "states": st["states"], "traces": st["traces"], "trace": ex.sample_traces[0] if ex.sample_traces else None}, cap=2)


def instances(tier):
    """Simplest first. Yields instance specs."""
    q = tier == "quick"
    d2 = [0, 1]
    bin_all = list(gen.tables_01(2, 2))  # 16
    un_all = list(gen.tables_01(1, 2))  # 4
    bin_menu = [gen.T3_BIN[i] for i in (0, 2, 4, 5)] + [[[1, 1], [0, 1]], [[0, 0], [0, 1]]]
    tern_menu = [ls_common.TERN[0], ls_common.TERN[1], ls_common.TERN[2], [[[0, 0], [0, 1]], [[1, 1], [1, 0]]]]

    def menu(scope, single):
        k = len(scope)
        if k == 1:
            return un_all if single else [[0, 1], [1, 0], [0, 0]]
        if k == 2:
            return bin_all if single else (bin_menu[:4] if q else bin_menu)
        return tern_menu if not q or single else tern_menu[:2]

    for n in (1, 2, 3) + (() if q else (4,)):
        names, shapes = gen.shapes(n, max_cons=2 if (q or n == 4) else 3, max_arity=3)
        for scopes in shapes:
            if n == 4 and not _interesting4(scopes):
                continue
            single = len(scopes) <= 1
            for tabs in itertools.product(*[menu(s, single) for s in scopes]):
                for mode in ("min", "max"):
                    for costs in (None, {"v0": [0, 3]}, ):
                        if costs and q and len(scopes) == 2 and len(scopes[0]) + len(scopes[1]) >= 5:
                            continue
                        spec = {"vars": {v: list(d2) for v in names}, "cons": [{"name": f"c{i}", "scope": s, "table": t} for i, (s, t) in enumerate(zip(scopes, tabs))], "mode": mode}
                        if costs:
                            spec["costs"] = costs
                        yield spec
    # all connected graphs on 4 variables (binary constraints), incl. cycles with branching below the root
    # (several children with different separators), small table menus
    names4 = ["v0", "v1", "v2", "v3"]
    pairs4 = list(itertools.combinations(names4, 2))
    menu4 = [gen.T3_BIN[2], gen.T3_BIN[0], [[1, 0], [0, 5]]]
    for r in range(3, 7):
        for edges in itertools.combinations(pairs4, r):
            if len(gen.components({"vars": {v: [0, 1] for v in names4}, "cons": [{"scope": list(e)} for e in edges]})) != 1:
                continue
            if q and r > 4:
                tab_iter = [tuple(menu4[(i + k) % 3] for i in range(r)) for k in range(3)]
            elif q:
                tab_iter = [t for j, t in enumerate(itertools.product(menu4, repeat=r)) if j % 3 == 0]
            else:
                tab_iter = itertools.product(menu4, repeat=r)
            for tabs in tab_iter:
                for mode in ("min", "max"):
                    yield {"vars": {v: [0, 1] for v in names4}, "cons": [{"name": f"c{i}", "scope": list(e), "table": t} for i, (e, t) in enumerate(zip(edges, tabs))], "mode": mode}
    # all connected labelled graphs on 5 variables with 4-6 (quick: 4-5) binary constraints: deep trees with back edges,
    # nodes with several children whose separators differ; one rotating table assignment per graph
    names5 = ["v0", "v1", "v2", "v3", "v4"]
    pairs5 = list(itertools.combinations(names5, 2))
    gi = 0
    for r in (4, 5) if q else (4, 5, 6):
        for edges in itertools.combinations(pairs5, r):
            if len(gen.components({"vars": {v: [0, 1] for v in names5}, "cons": [{"scope": list(e)} for e in edges]})) != 1:
                continue
            gi += 1
            for k in ((gi % 3,) if q else (0, 1, 2)):
                tabs = [menu4[(i + k) % 3] for i in range(r)]
                mode = ("min", "max")[(gi + k) % 2]
                yield {"vars": {v: [0, 1] for v in names5}, "cons": [{"name": f"c{i}", "scope": list(e), "table": t} for i, (e, t) in enumerate(zip(edges, tabs))], "mode": mode, "starts_first": True}
    # special families: 3-valued domains, str domains, big magnitudes, negative/float entries
    for mode in ("min", "max"):
        yield {"vars": {"v0": [0, 1, 2], "v1": [0, 1, 2]}, "cons": [{"name": "c0", "scope": ["v0", "v1"], "table": ls_common.T3x3}], "mode": mode}
        yield {"vars": {"v0": ["a", "b"], "v1": ["a", "b"], "v2": ["a", "b"]}, "cons": [{"name": "c0", "scope": ["v0", "v1"], "table": [[0, 2], [5, 1]]}, {"name": "c1", "scope": ["v1", "v2"], "table": [[1, 0], [0, 1]]}], "mode": mode}
        for big in (2 ** 31, 2 ** 40):
            yield {"vars": {"v0": [0, 1], "v1": [0, 1]}, "cons": [{"name": "c0", "scope": ["v0", "v1"], "table": [[big, 0], [big + 1, big]]}], "mode": mode}
            yield {"vars": {"v0": [0, 1], "v1": [0, 1]}, "cons": [{"name": "c0", "scope": ["v0", "v1"], "table": [[big, big + 2], [big + 1, big + 3]]}], "mode": mode, "costs": {"v1": [big, 0]}}
        yield {"vars": {"v0": [0, 1], "v1": [0, 1]}, "cons": [{"name": "c0", "scope": ["v0", "v1"], "table": [[-3, 2.5], [0.5, -1]]}], "mode": mode}
        # name order differs from creation order / lexical order of the tree
        yield {"vars": {"z": [0, 1], "a": [0, 1], "m": [0, 1]}, "cons": [{"name": "c0", "scope": ["z", "a"], "table": [[0, 2], [5, 1]]}, {"name": "c1", "scope": ["a", "m"], "table": [[1, 0], [0, 1]]}, {"name": "c2", "scope": ["z", "m"], "table": [[2, 0], [0, 5]]}], "mode": mode}


def _interesting4(scopes):
    # 4 variables: keep chains/stars/one ternary+binary, i.e. shapes touching at least 3 variables
    return len({v for s in scopes for v in s}) >= 3


def shard(args):
    idx, n, tier = args
    part = Part()
    for i, spec in enumerate(instances(tier)):
        if i % n == idx:
            explore(spec, part)
    return part


def order_shard(args):
    """Declaration-order family: the two densest 4-variable graphs classes (K4 minus an edge, K4: induced width 3, a child with two
    separator variables above its parent) with EVERY order in which the constraints can be declared (it fixes the dimension order
    of the UTIL tables), 3 table rotations, min and max; one in-place execution per canonical schedule (first, last)."""
    idx, n = args
    part = Part()
    names4 = ["v0", "v1", "v2", "v3"]
    pairs4 = list(itertools.combinations(names4, 2))
    menu4 = [gen.T3_BIN[2], gen.T3_BIN[0], [[1, 0], [0, 5]]]
    i = 0
    for r in (5, 6):
        for edges in itertools.combinations(pairs4, r):
            for perm in itertools.permutations(range(r)):
                i += 1
                if i % n != idx:
                    continue
                for k in range(3):
                    for mode in ("min", "max"):
                        spec = {"vars": {v: [0, 1] for v in names4}, "cons": [{"name": f"c{j}", "scope": list(edges[j]), "table": menu4[(j + k) % 3]} for j in perm], "mode": mode}
                        for sched in ("first", "last"):
                            world, shared, _ = ls_common.build_world(spec, "dpop", {})
                            ds = DpopSpec(spec)
                            st = netx.run_single(world, ds, sched, lambda key, what, w, h: part.violation(key, what, {"spec": spec, "history": netx.unroll(h)}))
                            part.count("evaluations")
                            part.count("declaration_order_runs")
                            part.count("transitions", st["steps"])
                            part.count("states", st["steps"] + 1)
                            part.count("traces")
                        part.nontriv(("order", edges, perm, k, mode))
                part.outcome(("order", edges, perm))
    return part


def run(ctx):
    ctx.level = "model_checking"
    ctx.rule = (
        "explicit-state search of the real DPOP computations (real pseudo-tree builder) over a virtual per-channel-FIFO network: for "
        "every DCOP instance of the family (1-3 variables quick / 1-4 thorough, every constraint hyper-graph with <=2 (3) constraints of "
        "arity 1-3 incl. disconnected and isolated variables, 0/1 cost tables - all tables for single-constraint shapes, menus otherwise - "
        "own value costs on/off, min and max, plus 3-valued, str-valued, >2^31, negative/float families) ALL start orders and delivery "
        "interleavings are explored with state caching; on every maximal path: every computation reported finished, values are domain "
        "members, and the reference cost of the selected assignment equals the brute-force optimum. Plus a declaration-order family: K4 and the "
        "six K4-minus-an-edge graphs with EVERY order of declaring their constraints (1440 orders), 3 table rotations, min/max, one in-place "
        "execution per canonical schedule (first, last). evaluations = instances (+ declaration-order runs); "
        "non-trivial = the instance has a sub-optimal assignment"
    )
    ctx.assumptions = [
        "Network model: one FIFO channel per ordered pair of computations (over-approximates the real transports).",
        "State merging by canonical form (sorted dicts/sets, numpy arrays by bytes).",
    ]
    n = 64
    ctx.pmap(shard, ctx.rotate([(i, n, ctx.tier) for i in range(n)]))
    ctx.pmap(order_shard, [(i, 16) for i in range(16)])


def replay(case):
    spec = case["spec"]
    found = []

    def once():
        world, shared, _ = ls_common.build_world(spec, "dpop", {})
        ds = DpopSpec(spec)
        log = []

        def observe(w, ev):
            log.append((ev, {n: c.current_value for n, c in w.comps.items()}, list(w.finished), w.exception))
            ds.check_state(w, ev, lambda k, what: found.append((k, what)))

        w = netx.replay(world, ds, case["history"], observe)
        if not netx.enabled_events(w, ds):
            ds.check_end(w, lambda k, what: found.append((k, what)))
        return log

    l1 = once()
    n1 = len(found)
    l2 = once()
    if repr(l1) != repr(l2):
        raise RuntimeError("replay is not deterministic")
    for e in l1:
        print(e)
    for k, what in found[:n1]:
        print("FOUND", k, "::", what)
    return n1 > 0
