"""Shared netx harness for the cycle-based local-search properties C03, C04, C07 (MGM, MGM2, DSA).

One exploration = one DCOP instance spec x one algorithm/parameter set; all start orders, all per-channel-FIFO
delivery orders, all answers of the algorithm's random draws; state caching.
Monitors (plain data inside World.mon, part of the canonical state):
  cyc[name][c]  = value held by `name` when its cycle counter became c   (from the real _on_new_cycle hook)
  fin[name]     = cycle counter at the first finished() notification
  go[(a,b,c)]   = a sent b an MGM2 go?(True) message during its cycle c
"""
import importlib

from vf.core import choice as choice_mod
from vf.core import gen, netx
from vf.core.runner import Part

ALGO_MODULES = {}


def algo_module(name):
    if name not in ALGO_MODULES:
        ALGO_MODULES[name] = importlib.import_module("pydcop.algorithms." + name)
    return ALGO_MODULES[name]


def graph_module(algo):
    m = algo_module(algo)
    return importlib.import_module("pydcop.computations_graph." + m.GRAPH_TYPE)


def build_world(spec, algo, params, unit_menu=(0.0, 0.999999)):
    """Real DCOP -> real computation graph -> real computations, wired to the virtual network."""
    from pydcop.algorithms import AlgorithmDef, ComputationDef

    dcop, variables = gen.build_dcop(spec)
    am = algo_module(algo)
    choice_mod.install(am, unit_menu=unit_menu)
    import pydcop.dcop.relations as relmod
    import pydcop.infrastructure.computations as compmod

    choice_mod.install(relmod, unit_menu=unit_menu)
    choice_mod.install(compmod, unit_menu=unit_menu)
    cg = graph_module(algo).build_computation_graph(dcop)
    algo_def = AlgorithmDef.build_with_default_param(algo, dict(params), mode=spec.get("mode", "min"))
    world = netx.World()
    shared = []
    for node in cg.nodes:
        cdef = ComputationDef(node, algo_def)
        comp = am.build_computation(cdef)
        hooks = ["finished", "_on_new_cycle"]
        if hasattr(type(comp), "value_selection"):
            hooks.append("value_selection")
        world.add(comp, hooks=hooks)
        shared.append(cdef)
    shared.extend(variables.values())
    shared.extend(dcop.constraints.values())
    shared.extend(v.domain for v in variables.values())
    return world, shared, dcop


class LsSpec(netx.Spec):
    """Monitor + oracles for MGM / MGM2 / DSA runs."""

    def __init__(self, spec, algo, params, props):
        self.spec = spec
        self.algo = algo
        self.params = dict(params)
        self.props = set(props)
        self.k = self.params.get("stop_cycle", 0)
        self.nb = gen.neighbors(spec)
        self.names = sorted(spec["vars"])
        self.active = [n for n in self.names if self.nb[n]]
        self.mode = spec.get("mode", "min")

    # ---- monitors
    def on_hook(self, world, name, kind, args):
        mon = world.mon
        comp = world.comps[name]
        if kind == "_on_new_cycle":
            mon.setdefault("cyc", {}).setdefault(name, {})[args[0]] = comp.current_value
        elif kind == "finished":
            mon.setdefault("fin", {}).setdefault(name, comp.cycle_count)
        elif kind == "value_selection":
            val = args[0]
            if val is not None and val not in comp.variable.domain:
                mon.setdefault("baddomain", []).append((name, repr(val)))

    def on_post(self, world, src, dst, msg):
        t = type(msg).__name__
        if t == "Mgm2GoMessage":
            c = world.comps[src].cycle_count
            if msg.go:
                world.mon.setdefault("go", {})[(src, dst, c)] = True
            world.mon.setdefault("m2", {})[("go", src, c)] = bool(msg.go)
        elif t == "Mgm2GainMessage":
            world.mon.setdefault("m2", {})[("gain", src, world.comps[src].cycle_count)] = msg.value
        elif t == "Mgm2OfferMessage" and msg.is_offering:
            world.mon.setdefault("m2", {})[("offer", src, world.comps[src].cycle_count)] = dst

    def why_idle(self, world, c, x):
        """Root-cause features of an idle, non-1-opt MGM2 cycle for the improvable variable x (signature only)."""
        m2 = world.mon.get("m2", {})
        if self.mode == "max":
            return "max-mode-gain-sign"
        gx = m2.get(("gain", x, c))
        if gx is None:
            return "no-gain-announced"
        if gx == 0:
            return "announced-zero-gain" + ("-as-offerer" if ("offer", x, c) in m2 else "")
        for y in sorted(self.nb[x]):
            gy = m2.get(("gain", y, c))
            if gy is not None and gy >= gx:
                committed = ("go", y, c) in m2
                return ("tie-with-" if gy == gx else "lost-to-") + ("committed-blocked-neighbour" if committed else "idle-neighbour")
        if ("go", x, c) in m2:
            return "committed-but-no-go"
        return "other"

    def canon_extra(self, world):
        m = world.mon
        return (m.get("cyc"), m.get("fin"), m.get("go"), m.get("baddomain"), m.get("m2"))

    def consuming(self, world, name):
        return True

    # ---- oracles
    def _assignment(self, world, c):
        cyc = world.mon.get("cyc", {})
        a = {}
        for n in self.names:
            if n in self.active:
                if c not in cyc.get(n, {}):
                    return None
                a[n] = cyc[n][c]
            else:
                a[n] = self.spec["vars"][n][0]
        return a

    def check_state(self, world, event, report):
        if world.exception is not None:
            if "C07" in self.props:
                ev, et, msg, where = world.exception
                report(f"C07|{self.algo}|handler-raised|{et}|{netx.site(where)}", f"{self.algo} {self.params} mode={self.mode}: event {ev} raised {et}: {msg} at {where}")
            return
        if not ({"C03", "C04"} & self.props) or not self.active:
            return
        # only examine the cycle boundary completed by this very transition
        if event[0] not in ("start", "deliver", "front"):
            return
        actor = event[1] if event[0] != "deliver" else event[2]
        cyc = world.mon.get("cyc", {}).get(actor)
        if not cyc:
            return
        for c in sorted(cyc):
            a0 = self._assignment(world, c)
            a1 = self._assignment(world, c + 1)
            if a0 is None or a1 is None:
                continue
            self._check_pair(world, c, a0, a1, report)

    def _check_pair(self, world, c, a0, a1, report):
        spec, mode = self.spec, self.mode
        c0, c1 = gen.ref_cost(spec, a0), gen.ref_cost(spec, a1)
        changed = [n for n in self.names if a0[n] != a1[n]]
        if "C03" in self.props:
            if gen.better(c0, c1, mode) and not gen.close(c0, c1):
                feats = []
                if spec.get("costs"):
                    n0, n1 = gen.ref_cost(spec, a0, False), gen.ref_cost(spec, a1, False)
                    # root cause test: would the step be fine if own value costs did not exist?
                    feats.append("varcosts" if gen.better(n0, n1, mode) and not gen.close(n0, n1) else "own-cost-ignored")
                go = world.mon.get("go", {})
                if len(changed) > 1:
                    pair = len(changed) == 2 and (changed[0], changed[1], c) in go and (changed[1], changed[0], c) in go
                    feats.append("coordinated-pair-move" if pair else "multi-move")
                if "own-cost-ignored" in feats:
                    feats = ["own-cost-ignored"]  # root cause established: secondary features would only multiply the keys
                elif self.algo == "mgm2" and mode == "min":
                    # root cause test (signature only): a mover committed with a partner (GO both ways) while the constraints they
                    # share currently cost something: Mgm2Computation._find_best_offer subtracts the new cost of the receiver's
                    # OTHER constraints from its FULL current cost, so that amount is counted as gain once too often
                    for x in changed:
                        for y in self.nb[x]:
                            if (x, y, c) in go and (y, x, c) in go:
                                shared = gen.ref_cost({"vars": spec["vars"], "cons": [k for k in spec["cons"] if x in k["scope"] and y in k["scope"]]}, a0, False)
                                if shared:
                                    feats = ["shared-constraint-cost-counted-twice"]
                report(
                    f"C03|{self.algo}|{mode}|cost-worsened|" + "+".join(feats or ["plain"]),
                    f"{self.algo} {self.params} mode={mode}: global cost went from {c0} (cycle {c}: {a0}) to {c1} (cycle {c + 1}: {a1})",
                )
            for i, x in enumerate(changed):
                for y in changed[i + 1:]:
                    if y in self.nb[x]:
                        go = world.mon.get("go", {})
                        coordinated = self.algo == "mgm2" and (x, y, c) in go and (y, x, c) in go
                        if not coordinated:
                            report(
                                f"C03|{self.algo}|{mode}|neighbours-moved-together",
                                f"{self.algo} {self.params} mode={mode}: neighbours {x} and {y} both changed value between cycle {c} ({a0}) and {c + 1} ({a1}) without being coordinated partners",
                            )
        if "C04" in self.props and not changed:
            for x in self.active:
                for v in spec["vars"][x]:
                    if v == a0[x]:
                        continue
                    b = dict(a0)
                    b[x] = v
                    cb = gen.ref_cost(spec, b)
                    if gen.better(cb, c0, mode) and not gen.close(cb, c0):
                        feats = ["varcosts"] if spec.get("costs") else ["plain"]
                        if spec.get("costs") and not self._improvable(a0, with_var_costs=False):
                            feats = ["own-cost-ignored"]  # 1-opt w.r.t. the constraints alone
                        elif self.algo == "mgm2":
                            feats.append(self.why_idle(world, c, x))
                        report(
                            f"C04|{self.algo}|{mode}|idle-cycle-not-1opt|" + "+".join(feats),
                            f"{self.algo} {self.params} mode={mode}: no value changed between cycle {c} and {c + 1} at {a0} (cost {c0}) but {x}:={v} alone gives {cb}",
                        )
                        return

    def _improvable(self, a0, with_var_costs=True):
        c0 = gen.ref_cost(self.spec, a0, with_var_costs)
        for x in self.active:
            for v in self.spec["vars"][x]:
                if v != a0[x]:
                    b = dict(a0)
                    b[x] = v
                    cb = gen.ref_cost(self.spec, b, with_var_costs)
                    if gen.better(cb, c0, self.mode) and not gen.close(cb, c0):
                        return True
        return False

    def check_end(self, world, report):
        if "C07" not in self.props or world.exception is not None:
            return
        fin = world.mon.get("fin", {})
        for n in self.names:
            comp = world.comps[n]
            if n not in fin:
                pending = {f"{s}->{d}": len(q) for (s, d), q in world.chans.items()}
                report(
                    f"C07|{self.algo}|never-finished|" + ("isolated" if not self.nb[n] else "connected"),
                    f"{self.algo} {self.params} mode={self.mode}: quiescent but {n} never reported finished (cycle {comp.cycle_count}, state {getattr(comp, '_state', None)}, pending {pending})",
                )
            elif self.nb[n] and fin[n] != self.k:
                report(
                    f"C07|{self.algo}|finished-at-wrong-cycle",
                    f"{self.algo} {self.params}: {n} reported finished at cycle {fin[n]} instead of {self.k}",
                )
        if world.mon.get("baddomain"):
            report(f"C10|{self.algo}|value-outside-domain", f"{world.mon['baddomain']}")


def explore_instance(job, part, max_states=None):
    """job = dict(spec, algo, params, props, unit_menu?)."""
    spec, algo, params, props = job["spec"], job["algo"], job["params"], job["props"]
    try:
        world, shared, _ = build_world(spec, algo, params, tuple(job.get("unit_menu", (0.0, 0.999999))))
    except Exception as e:  # the computations cannot even be built: nothing will ever finish / select a value
        import traceback

        where = [f"{f.filename.split('/')[-1]}:{f.lineno}:{f.name}" for f in traceback.extract_tb(e.__traceback__)[-2:]]
        if not any("pydcop" in f.filename for f in traceback.extract_tb(e.__traceback__)[-2:]):
            raise
        part.count("evaluations")
        for p in sorted(set(props) & {"C07", "C10"}):
            part.violation(f"{p}|{algo}|build-raised|{type(e).__name__}|{netx.site(where)}", f"{algo} {params} on {spec}: building the computations raised {type(e).__name__}: {e} at {where}", {"job": job, "history": []})
        return
    ls = LsSpec(spec, algo, params, props)
    ex = netx.Explorer(ls, shared=shared, max_states=max_states, schedule=job.get("schedule", "all"))

    def report(key, what, w, hist):
        if not any(key.startswith(p + "|") for p in props):
            return
        part.violation(key, what, {"job": job, "history": netx.unroll(hist)})

    st = ex.run(world, report)
    for k in ("states", "transitions", "traces", "choice_points", "revisits"):
        part.count(k, st[k])
    part.maxi("depth", st["max_depth"])
    part.maxi("states_per_instance", st["states"])
    part.count("evaluations")
    part.count("instances")
    if ex.capped:
        part.count("capped_instances")
    for d in ex.end_digests:
        part.outcome((algo, repr(spec), d))
    if len(ex.end_digests) > 1:
        part.nontriv((algo, repr(params), repr(spec)))
    if ex.sample_traces:
        part.sample({"algo": algo, "params": params, "spec": spec, "trace": ex.sample_traces[0][:40], "states": st["states"]}, cap=2)
    _clear_caches(algo)
    return st


def _clear_caches(algo):
    am = algo_module(algo)
    for cls in vars(am).values():
        if isinstance(cls, type):
            for attr in vars(cls).values():
                if hasattr(attr, "cache_clear"):
                    attr.cache_clear()


def replay_case(case, props):
    job = case["job"]
    spec, algo, params = job["spec"], job["algo"], job["params"]
    seen = []

    def run_once():
        world, shared, _ = build_world(spec, algo, params, tuple(job.get("unit_menu", (0.0, 0.999999))))
        ls = LsSpec(spec, algo, params, props)
        found = []
        log = []

        def observe(w, ev):
            log.append((ev, {n: (c.current_value, c.cycle_count) for n, c in w.comps.items()}))
            ls.check_state(w, ev, lambda key, what: found.append((key, what)))

        w = netx.replay(world, ls, case["history"], observe)
        if not netx.enabled_events(w, ls):
            ls.check_end(w, lambda key, what: found.append((key, what)))
        return log, found

    log1, f1 = run_once()
    log2, f2 = run_once()
    if repr(log1) != repr(log2):
        raise RuntimeError("replay is not deterministic")
    for ev, obs in log1:
        print(ev, obs)
    for key, what in f1:
        print("FOUND", key, "::", what)
    return any(any(k.startswith(p + "|") for p in props) for k, _ in f1)


# ---------------------------------------------------------------- job families

def _spec(names, doms, cons, mode, costs=None):
    s = {"vars": {n: list(doms[n]) for n in names}, "cons": cons, "mode": mode}
    if costs:
        s["costs"] = costs
    return s


def _cons(scopes, tables):
    return [{"name": f"c{i}", "scope": list(sc), "table": t} for i, (sc, t) in enumerate(zip(scopes, tables))]


PAIR = [("v0", "v1")]
CHAIN = [("v0", "v1"), ("v1", "v2")]
TRIANGLE = [("v0", "v1"), ("v1", "v2"), ("v0", "v2")]
TERNARY = [("v0", "v1", "v2")]
TERNARY_PLUS = [("v0", "v1", "v2"), ("v0", "v1")]
UNARY_PAIR = [("v0", "v1"), ("v0",)]

B = gen.T3_BIN
T3x3 = [[0, 2, 1], [5, 1, 0], [1, 0, 2]]  # 3x3 table with a unique optimum per row/col mix
TERN = [
    [[[0, 1], [2, 5]], [[1, 0], [5, 2]]],
    [[[5, 1], [1, 0]], [[0, 2], [2, 1]]],
    [[[1, 1], [1, 0]], [[1, 2], [0, 1]]],
]


def instance_family(tier, which):
    """List of (label, spec-without-mode-and-costs builder args). Returns list of specs (both modes, costs on/off)."""
    out = []
    d2 = {"v0": [0, 1], "v1": [0, 1], "v2": [0, 1], "v3": [0, 1]}
    names3 = ["v0", "v1", "v2"]

    def add(label, names, doms, scopes, tables, cost_opts=(None, "c")):
        for mode in ("min", "max"):
            for co in cost_opts:
                costs = None
                if co == "c":
                    costs = {names[0]: [0, 3][: len(doms[names[0]])] + [1] * (len(doms[names[0]]) - 2)}
                    if len(names) > 1:
                        costs[names[1]] = ([2, 0] + [1] * 5)[: len(doms[names[1]])]
                out.append((label, _spec(names, doms, _cons(scopes, tables), mode, costs)))

    if which == "pair":
        for t in B:
            add("pair", ["v0", "v1"], d2, PAIR, [t])
        d3 = {"v0": [0, 1, 2], "v1": [0, 1, 2]}
        add("pair-d3", ["v0", "v1"], d3, PAIR, [T3x3])
        add("pair-str", ["v0", "v1"], {"v0": ["a", "b"], "v1": ["a", "b"]}, PAIR, [B[2]])
    elif which == "pair+iso":
        add("pair+iso", names3, d2, PAIR, [B[2]])
        add("pair+unary", ["v0", "v1"], d2, UNARY_PAIR, [B[4], [0, 3]], cost_opts=(None,))
    elif which == "chain":
        combos = [(B[2], B[0]), (B[4], B[5]), (B[0], B[1])] if tier == "quick" else [(a, b) for a in B for b in B]
        for a, b in combos:
            add("chain", names3, d2, CHAIN, [a, b])
    elif which == "triangle":
        combos = [(B[2], B[0], B[4])] if tier == "quick" else [(B[2], B[0], B[4]), (B[0], B[0], B[0]), (B[5], B[4], B[2]), (B[1], B[2], B[5])]
        for a, b, c in combos:
            add("triangle", names3, d2, TRIANGLE, [a, b, c])
    elif which == "ternary":
        for t in (TERN[:1] if tier == "quick" else TERN):
            add("ternary", names3, d2, TERNARY, [t])
        if tier != "quick":
            add("ternary+bin", names3, d2, TERNARY_PLUS, [TERN[1], B[2]])
    elif which == "star4":
        add("star4", ["v0", "v1", "v2", "v3"], d2, [("v0", "v1"), ("v0", "v2"), ("v0", "v3")], [B[2], B[0], B[4]], cost_opts=(None,))
    elif which == "chain4":
        add("chain4", ["v0", "v1", "v2", "v3"], d2, [("v0", "v1"), ("v1", "v2"), ("v2", "v3")], [B[2], B[0], B[4]], cost_opts=(None,))
    return out


def mgm_jobs(tier, props):
    """Jobs for C03/C04: MGM and MGM2 on the instance families."""
    jobs = []
    q = tier == "quick"
    one = (0.5,)  # MGM draws random() only for a tie-break number that lexic mode never reads
    for fam, k in [("pair", 3), ("pair+iso", 3), ("chain", 2 if q else 3), ("triangle", 2), ("ternary", 2)] + ([] if q else [("chain4", 2)]):
        for label, spec in instance_family(tier, fam):
            jobs.append({"spec": spec, "algo": "mgm", "params": {"stop_cycle": k}, "props": list(props), "unit_menu": one, "label": label})
    # MGM2: offerer draw uniform(0,1) < threshold: 2-point menu covers both; favor variants
    favors = ["unilateral"] if q else ["unilateral", "no", "coordinated"]
    for favor in favors:
        for label, spec in instance_family(tier, "pair"):
            if q and label != "pair":
                continue
            jobs.append({"spec": spec, "algo": "mgm2", "params": {"stop_cycle": 3 if not q else 2, "favor": favor}, "props": list(props), "label": label})
    fams2 = [("chain", 2)] if q else [("chain", 2), ("triangle", 2), ("ternary", 2), ("pair+iso", 2)]
    for fam, k in fams2:
        fam_specs = instance_family("quick", fam)
        if q:
            fam_specs = [fs for i, fs in enumerate(fam_specs) if i % 4 == 0][:3]
        for label, spec in fam_specs:
            jobs.append({"spec": spec, "algo": "mgm2", "params": {"stop_cycle": k}, "props": list(props), "label": label})
    jobs.extend(sweep_jobs(tier, props, algos=("mgm",) if q else ("mgm", "mgm2")))
    return jobs


SWEEP_SCHEDULES = ("first", "last", "alt", "alt2", "alt3", "alt4")


def sweep_jobs(tier, props, algos=("mgm",)):
    """Wide instance sweep under two canonical schedules (first / last enabled event): chain v0-v1-v2 with a unary
    constraint on v2, all {0,1,2}-valued tables for c12, a menu for c01; every initial assignment and random answer is
    still expanded. Targets sequential-logic defects that do not depend on the interleaving (stale views, wrong gain)."""
    q = tier == "quick"
    out = []
    c01_menu = [[[0, 0], [0, 0]], B[2], B[0]] if q else [[[0, 0], [0, 0]]] + B
    c12_all = list(gen.tables_01(2, 2, values=(0, 1, 2)))  # 81
    if q:
        c12_all = [t for i, t in enumerate(c12_all) if t[0][0] == 0 or i % 3 == 0]
    unary = [[3, 0], [0, 0]] if q else [[3, 0], [0, 3], [0, 0], [1, 2]]
    doms = {"v0": [0, 1], "v1": [0, 1], "v2": [0, 1]}
    for algo in algos:
        # MGM2 expands two random answers per computation and cycle: about 14 000 states (10 s) per sweep run (measured), so its
        # sweep (thorough only) takes the quick menu for c01, one unary constraint and one schedule: 486 runs, about 1.4 core-hours
        heavy = algo == "mgm2"
        for a in (c01_menu if not heavy else [[[0, 0], [0, 0]], B[2], B[0]]):
            for b in c12_all:
                for u in (unary if not heavy else [[1, 2]]):
                    for mode in ("min", "max"):
                        spec = _spec(["v0", "v1", "v2"], doms, _cons([("v0", "v1"), ("v1", "v2"), ("v2",)], [a, b, u]), mode)
                        for sched in (SWEEP_SCHEDULES if not heavy else ("last",)):
                            out.append({"spec": spec, "algo": algo, "params": {"stop_cycle": 4 if algo == "mgm" else 3}, "props": list(props),
                                        "unit_menu": (0.5,) if algo == "mgm" else (0.0, 0.999999), "schedule": sched, "label": "sweep"})
    return out


def shard_batch(jobs):
    part = Part()
    for job in jobs:
        explore_instance(job, part, max_states=job.get("max_states"))
    return part


def shard_job(job):
    part = Part()
    explore_instance(job, part, max_states=job.get("max_states"))
    return part


def run_jobs(ctx, jobs, rule):
    ctx.level = "model_checking"
    ctx.rule = rule
    ctx.assumptions = [
        "Network model: one FIFO channel per ordered pair of computations (over-approximates the real transports, which also serialise per agent); re-injected start/pause buffers use a per-computation front lane as in Messaging's priority queue.",
        "State merging: canonical form sorts dicts/sets (handlers are functions of contents); monitor logs are part of the state.",
        "random draws of the algorithm are explorer choice points: choice() over all elements, random()/uniform() over a 2-point menu below/above every threshold (MGM's unused tie-break number is fixed).",
    ]
    # biggest first for load balance
    full = [j for j in jobs if j.get("schedule", "all") == "all"]
    sweep = [j for j in jobs if j.get("schedule", "all") != "all"]
    full = sorted(full, key=lambda j: -(len(j["spec"]["vars"]) * 10 + j["params"].get("stop_cycle", 1) + (20 if j["algo"] == "mgm2" else 0)))
    ctx.pmap(shard_job, full)
    if sweep:
        n = 64
        ctx.pmap(shard_batch, [sweep[i::n] for i in range(n)])
    if ctx.part.counters.get("capped_instances"):
        ctx.exhaustive = False
        ctx.rule += f" CAP: {ctx.part.counters['capped_instances']} instance(s) hit the per-instance state cap; everything below the cap was fully explored."
