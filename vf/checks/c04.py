"""C04 a cycle with no MGM/MGM2 move means the assignment is 1-opt (netx, see ls_common)."""
from vf.checks import ls_common

PROPS = ["C04"]
RULE = (
    "explicit-state search of the real MGM/MGM2 computations over a virtual per-channel-FIFO network: per instance "
    "(shape x cost tables x own-value costs on/off x min/max x stop_cycle horizon) ALL start orders, delivery interleavings, initial "
    "values and random answers, with state caching; oracle on every completed cycle boundary c->c+1 (assignment A_c = values held when "
    "each computation's cycle counter became c): if A_c == A_c+1 then no single variable can improve the reference global cost "
    "(constraints + own value costs) of A_c by changing alone (two nested loops). evaluations = instances; "
    "non-trivial instance = more than one distinct end observation"
)


def run(ctx):
    ls_common.run_jobs(ctx, ls_common.mgm_jobs(ctx.tier, PROPS), RULE)


def replay(case):
    return ls_common.replay_case(case, PROPS)
