"""C14 DCOP YAML files round-trip and load faithfully.

Bounded-exhaustive enumeration (E2) of small DCOPs described by plain data (the *spec*). Every spec is built
through the Python API (Domain, Variable, constraint_from_str / NAryMatrixRelation / NAryFunctionRelation /
constraint_from_external_definition, AgentDef, DCOP.add_constraint, DCOP.add_agents), dumped with
`yamldcop.dcop_yaml`, and loaded back with the real loader: from the string (`load_dcop`), from one file given as
`str`, from one file given as a 1-element list, and from every split of the dump's top-level sections into two
files (`load_dcop_from_file`). The loaded DCOP is observed by value (domains, variables, every constraint on every
assignment of its scope, every agent's capacity / route to every agent / hosting cost of every computation) and
compared with the same observation computed from the spec by a reference model written here (plain loops, table
lookups and python twins of the expression templates). The DCOP built through the API is itself checked against
the reference model first (a mismatch there is a harness error, not a verdict).

Not in the alphabet because pyDCOP's YAML format cannot express them (or the property does not list them):
per-agent default routes (the format has one global `routes: default`), asymmetric route tables and routes to
agents outside the DCOP (rejected by the loader), extra agent attributes other than capacity, variables with cost
functions, partially applied (sliced) expression constraints (`partial:` is documented but not read by the
loader), domain values containing blanks (extensional assignments are blank-separated).
"""
import itertools
import os
import re
import tempfile
import traceback

from vf.core.runner import Part

UNSET = "<unset>"
ABSENT = "<absent>"
MISSING = "<missing>"
INF = float("inf")
NSHARDS = 64
# the scratch files are rewritten for every load: keep them in memory when the machine offers a tmpfs
TMP_PARENT = "/dev/shm" if os.path.isdir("/dev/shm") and os.access("/dev/shm", os.W_OK) else None

EXT_SOURCE = "def ext_cost(p, q=None):\n    return 5 if p == q else (1 if q is not None else 8)\n"

# ---------------------------------------------------------------------------------------------- alphabet

# [name, type, values]: 0 is falsy and first / not first, a negative, a str domain whose values look like ints,
# 1-value domains of both kinds, a non-empty type
DI2 = ["di", "", [0, 1]]
DI3 = ["di", "lum", [-1, 0, 2]]
DI1 = ["di", "", [5]]
DS2 = ["ds", "", ["A", "B"]]
DS1 = ["ds", "col", ["A"]]
DSN = ["ds", "t", ["1", "2", "10"]]
DOMSETS = [[DI2], [DS2], [DI3], [DSN], [DI1], [DS1], [DI2, DS2], [DI3, DSN], [DS2, DI1], [DI2, DS1]]

VAR_NAMES = ["vb", "va", "vc"]  # list order differs from sorted order
AGENT_NAMES = ["a2", "a1", "a3"]

EXPR_IDS = ["eq", "idx", "multi", "abs", "dict"]  # the 5-element menu of intentional constraints
PATTERNS = {  # extensional tables: flat cyclic fillers
    "zero": [0],  # constant: every assignment under one value key
    "distinct": None,  # i*3+1
    "tie": [2, 0, 5, 0, 1],
    "float": [0.5, 0.1 + 0.2, 1e16, 1],
    "negbig": [-1, 2 ** 40, 0, 2 ** 31],
    "inf": [0, INF, 7],
}
PATTERN_IDS = ["zero", "distinct", "tie", "float", "negbig", "inf"]

NO_AGENTS = {"list": [], "default_route": UNSET, "routes": [], "shared": False}


# ---------------------------------------------------------------------------------------------- reference model

def dom_values(spec, dname):
    for n, _, vals in spec["domains"]:
        if n == dname:
            return list(vals)
    raise KeyError(dname)


def var_domain(spec, vname):
    for n, d, _ in spec["variables"]:
        if n == vname:
            return d
    raise KeyError(vname)


def scope_doms(spec, scope):
    return [dom_values(spec, var_domain(spec, v)) for v in scope]


def expr_text(tid, names, doms):
    """The python expression written in the DCOP for template `tid` on variables `names` (domains `doms`)."""
    a, la, la0 = names[0], repr(list(doms[0])), repr(doms[0][0])
    if len(names) == 1:
        return {
            "idx": f"{la}.index({a}) * 0.5",
            "multi": f"if {a} == {la0}:\n    r = 4\nelse:\n    r = 2\nreturn r + 0.5",
            "abs": f"abs({la}.index({a}) - 1)",
            "dict": f"{{{la0}: 7}}.get({a}, 2)",
        }[tid]
    b, lb, lb0 = names[1], repr(list(doms[1])), repr(doms[1][0])
    return {
        "eq": f"3 if {a} == {b} else -1",
        "idx": f"{la}.index({a}) * 0.5 + {lb}.index({b})",
        "multi": f"if {a} == {la0}:\n    r = 4\nelse:\n    r = 2\nreturn r + {lb}.index({b})",
        "abs": f"abs({la}.index({a}) - {lb}.index({b}))",
        "dict": f"{{({la0}, {lb0}): 7}}.get(({a}, {b}), 2)",
    }[tid]


def expr_ref(tid, doms, vals):
    """Python twin of expr_text: the value the expression denotes."""
    ia = doms[0].index(vals[0])
    first_a = vals[0] == doms[0][0]
    if len(vals) == 1:
        return {"idx": ia * 0.5, "multi": (4 if first_a else 2) + 0.5, "abs": abs(ia - 1), "dict": 7 if first_a else 2}[tid]
    ib = doms[1].index(vals[1])
    first_b = vals[1] == doms[1][0]
    return {
        "eq": 3 if (type(vals[0]) == type(vals[1]) and vals[0] == vals[1]) else -1,
        "idx": ia * 0.5 + ib,
        "multi": (4 if first_a else 2) + ib,
        "abs": abs(ia - ib),
        "dict": 7 if (first_a and first_b) else 2,
    }[tid]


def table_flat(pattern, n):
    seq = PATTERNS[pattern]
    if seq is None:
        return [i * 3 + 1 for i in range(n)]
    return [seq[i % len(seq)] for i in range(n)]


def nest(flat, shape):
    if len(shape) == 1:
        return list(flat)
    step = len(flat) // shape[0]
    return [nest(flat[i * step:(i + 1) * step], shape[1:]) for i in range(shape[0])]


def lam_ref(doms, vals):
    """What the python functions given to NAry/UnaryFunctionRelation compute: 10 + 2*i0 - 2*i1 + 6*i2 on value indexes."""
    idx = [d.index(v) for d, v in zip(doms, vals)]
    return 10 + sum((k + 1) * (-1 if k % 2 else 2) * x for k, x in enumerate(idx))


def ext_ref(vals):
    if len(vals) == 1:
        return 8
    return 5 if (type(vals[0]) == type(vals[1]) and vals[0] == vals[1]) else 1


def cons_ref(spec, c, vals):
    """Value of constraint `c` (a spec entry) on `vals`, given in the order of c['scope']."""
    doms = scope_doms(spec, c["scope"])
    kind = c["kind"]
    if kind == "expr":
        return expr_ref(c["what"], doms, vals)
    if kind == "matrix":
        shape = [len(d) for d in doms]
        n = 1
        for s in shape:
            n *= s
        flat = table_flat(c["what"], n)
        pos = 0
        for d, v in zip(doms, vals):
            pos = pos * len(d) + d.index(v)
        return flat[pos]
    if kind in ("lam", "ulam"):
        return lam_ref(doms, vals)
    if kind == "extsrc":
        return ext_ref(vals)
    raise ValueError(kind)


def ref_route(spec, a, b):
    ag = spec["agents"]
    if a == b:
        return 0, "self"
    for x, y, v in ag["routes"]:
        if {x, y} == {a, b}:
            return v, "specific"
    return (1 if ag["default_route"] == UNSET else ag["default_route"]), "default"


def ref_hosting(spec, a, comp):
    for name, _, hdef, hspec in spec["agents"]["list"]:
        if name == a:
            if hspec is not None and comp in hspec:
                return hspec[comp], "specific"
            return (0 if hdef == UNSET else hdef), "default"
    raise KeyError(a)


def computation_names(spec):
    names = [v[0] for v in spec["variables"]] + [c["name"] for c in spec["constraints"]]
    for _, _, _, hspec in spec["agents"]["list"]:
        for k in (hspec or {}):
            if k not in names:
                names.append(k)
    return names


def expected(spec):
    """The observation (see `observe`) that an equivalent DCOP must give, computed from the spec alone."""
    obs = {"domains": sorted(d[0] for d in spec["domains"])}
    for n, t, vals in spec["domains"]:
        obs[f"domain:{n}:type"] = t
        obs[f"domain:{n}:values"] = list(vals)
    obs["variables"] = sorted(v[0] for v in spec["variables"])
    for n, d, init in spec["variables"]:
        obs[f"variable:{n}:domain"] = d
        obs[f"variable:{n}:initial"] = init
    obs["constraints"] = sorted(c["name"] for c in spec["constraints"])
    for c in spec["constraints"]:
        scope = sorted(c["scope"])
        obs[f"constraint:{c['name']}:scope"] = scope
        doms = scope_doms(spec, c["scope"])
        for vals in itertools.product(*doms):
            asg = dict(zip(c["scope"], vals))
            key = repr([asg[s] for s in scope])
            obs[f"constraint:{c['name']}:value:{key}"] = cons_ref(spec, c, list(vals))
    names = [a[0] for a in spec["agents"]["list"]]
    obs["agents"] = sorted(names)
    for name, cap, _, _ in spec["agents"]["list"]:
        obs[f"agent:{name}:capacity"] = ABSENT if cap == UNSET else cap
        for other in names:
            obs[f"agent:{name}:route:{other}"] = ref_route(spec, name, other)[0]
        for comp in computation_names(spec):
            obs[f"agent:{name}:hosting:{comp}"] = ref_hosting(spec, name, comp)[0]
    return obs


# ---------------------------------------------------------------------------------------------- real code

def build_constraint(spec, c, variables, srcfile):
    import numpy as np
    from pydcop.dcop.relations import (
        NAryFunctionRelation,
        NAryMatrixRelation,
        UnaryFunctionRelation,
        constraint_from_external_definition,
        constraint_from_str,
    )

    scope = [variables[n] for n in c["scope"]]
    doms = scope_doms(spec, c["scope"])
    kind = c["kind"]
    if kind == "expr":
        return constraint_from_str(c["name"], expr_text(c["what"], c["scope"], doms), list(variables.values()))
    if kind == "matrix":
        shape = [len(d) for d in doms]
        n = 1
        for s in shape:
            n *= s
        return NAryMatrixRelation(scope, np.array(nest(table_flat(c["what"], n), shape)), name=c["name"])
    if kind == "lam":
        if len(scope) == 1:
            return NAryFunctionRelation(lambda p: lam_ref(doms, [p]), scope, name=c["name"])
        if len(scope) == 2:
            return NAryFunctionRelation(lambda p, q: lam_ref(doms, [p, q]), scope, name=c["name"])
        return NAryFunctionRelation(lambda p, q, r: lam_ref(doms, [p, q, r]), scope, name=c["name"])
    if kind == "ulam":
        return UnaryFunctionRelation(c["name"], scope[0], lambda p: lam_ref(doms, [p]))
    if kind == "extsrc":
        call = "source.ext_cost(" + ", ".join(c["scope"]) + ")"
        return constraint_from_external_definition(c["name"], srcfile, call, list(variables.values()))
    raise ValueError(kind)


def build_dcop(spec, srcfile):
    from pydcop.dcop.dcop import DCOP
    from pydcop.dcop.objects import AgentDef, Domain, Variable

    doms = {n: Domain(n, t, list(vals)) for n, t, vals in spec["domains"]}
    variables = {}
    for name, dname, init in spec["variables"]:
        variables[name] = Variable(name, doms[dname]) if init is None else Variable(name, doms[dname], init)
    dcop = DCOP("c14", spec["objective"], domains=dict(doms), variables=dict(variables))
    for c in spec["constraints"]:
        dcop.add_constraint(build_constraint(spec, c, variables, srcfile))
    ag = spec["agents"]
    agents, shared = [], {}
    for name, cap, hdef, hspec in ag["list"]:
        kw = {}
        if cap != UNSET:
            kw["capacity"] = cap
        if ag["default_route"] != UNSET:
            kw["default_route"] = ag["default_route"]
        routes = {}
        for x, y, v in ag["routes"]:
            if name in (x, y):
                routes[y if x == name else x] = v
        if routes:
            kw["routes"] = routes
        if hdef != UNSET:
            kw["default_hosting_cost"] = hdef
        if hspec is not None:
            if ag["shared"]:  # one dict object given to several agents (what create_agents does)
                kw["hosting_costs"] = shared.setdefault(repr(sorted(hspec.items())), dict(hspec))
            else:
                kw["hosting_costs"] = dict(hspec)
        agents.append(AgentDef(name, **kw))
    if agents:
        dcop.add_agents(agents)
    return dcop


def observe(dcop, spec):
    """Value observation of a DCOP object (built or loaded) at the points the property names."""
    obs = {"domains": sorted(dcop.domains)}
    for n, d in dcop.domains.items():
        obs[f"domain:{n}:type"] = d.type
        obs[f"domain:{n}:values"] = list(d.values)
    obs["variables"] = sorted(dcop.variables)
    for n, v in dcop.variables.items():
        obs[f"variable:{n}:domain"] = v.domain.name
        obs[f"variable:{n}:initial"] = v.initial_value
    obs["constraints"] = sorted(dcop.constraints)
    by_name = {c["name"]: c for c in spec["constraints"]}
    for n, rel in dcop.constraints.items():
        scope = sorted(v.name for v in rel.dimensions)
        obs[f"constraint:{n}:scope"] = scope
        c = by_name.get(n)
        if c is None or scope != sorted(c["scope"]):
            continue
        for vals in itertools.product(*scope_doms(spec, c["scope"])):
            asg = dict(zip(c["scope"], vals))
            key = repr([asg[s] for s in scope])
            try:
                val = rel(**asg)
                if hasattr(val, "item"):
                    val = val.item()
            except Exception as e:  # the constraint cannot be evaluated: it has no value on this assignment
                val = f"<raised {type(e).__name__}>"
            obs[f"constraint:{n}:value:{key}"] = val
    obs["agents"] = sorted(dcop.agents)
    comps = computation_names(spec)
    for n, a in dcop.agents.items():
        obs[f"agent:{n}:capacity"] = getattr(a, "capacity", ABSENT)
        for other in sorted(dcop.agents):
            obs[f"agent:{n}:route:{other}"] = a.route(other)
        for comp in comps:
            obs[f"agent:{n}:hosting:{comp}"] = a.hosting_cost(comp)
    return obs


def is_num(x):
    return isinstance(x, (int, float)) and not isinstance(x, bool)


def same(a, b):
    if isinstance(a, (list, tuple)) and isinstance(b, (list, tuple)):
        return len(a) == len(b) and all(same(x, y) for x, y in zip(a, b))
    if is_num(a) and is_num(b):
        if a == b:
            return True
        if a in (INF, -INF) or b in (INF, -INF) or a != a or b != b:
            return False
        return abs(a - b) <= 1e-9 * max(1, abs(a), abs(b))
    return type(a) == type(b) and a == b


def diff(got, exp):
    return [k for k in sorted(set(got) | set(exp)) if not same(got.get(k, MISSING), exp.get(k, MISSING))]


def classify(path, spec, got, exp):
    """Root-cause signature of one differing observation point."""
    p = path.split(":")
    g, e = got.get(path, MISSING), exp.get(path, MISSING)
    if len(p) == 1:
        return f"{p[0]}|names"
    if p[0] == "domain":
        if p[2] == "values" and isinstance(g, list) and isinstance(e, list) and [str(x) for x in g] == [str(x) for x in e]:
            return "domain|values|value-type"
        return f"domain|{p[2]}"
    if p[0] == "variable":
        if p[2] == "initial":
            how = "none" if e is None else ("falsy" if not e else "value")
            return f"variable|initial|expected-{how}"
        return f"variable|{p[2]}"
    if p[0] == "constraint":
        c = next((c for c in spec["constraints"] if c["name"] == p[1]), None)
        tag = f"kind={c['kind']}|{c['what']}" if c else "unknown"
        if p[2] == "scope":
            return f"constraint|scope|{tag}"
        if isinstance(g, str) and g.startswith("<raised"):
            return f"constraint|eval-raised|{g[8:-1]}|{tag}"
        return f"constraint|value|{tag}"
    if p[0] == "agent":
        if p[2] == "capacity":
            how = "absent" if e == ABSENT else ("falsy" if not e else "value")
            return f"agent|capacity|expected-{how}"
        if e == MISSING or g == MISSING:
            return f"agent|{p[2]}|missing"
        if p[2] == "route":
            return "agent|route|expected-from-" + ref_route(spec, p[1], p[3])[1]
        return "agent|hosting|expected-from-" + ref_hosting(spec, p[1], p[3])[1]
    return "other|" + p[0]


def exc_signature(e):
    """ExceptionType@innermost pyDCOP function on the traceback."""
    where = "?"
    for fs in traceback.extract_tb(e.__traceback__):
        if "/pydcop/" in fs.filename.replace(os.sep, "/"):
            where = fs.name
    return f"{type(e).__name__}@{where}"


# ---------------------------------------------------------------------------------------------- load modes

TOP_LEVEL = re.compile(r"^[^\s#-]")
# documented order constraints of the format (docs/usage/file_formats/dcop_format.yml): "variables must always be
# defined after the domains", "only agents that have already been defined before can be used" in routes/hosting.
PRECEDENCE = [("domains", "variables"), ("variables", "constraints"), ("agents", "routes"), ("agents", "hosting_costs")]


def split_blocks(text):
    """The dump cut at its top-level keys (name, objective, domains, variables, constraints, agents, ...)."""
    blocks = []
    for line in text.splitlines(keepends=True):
        if TOP_LEVEL.match(line) or not blocks:
            blocks.append(line)
        else:
            blocks[-1] += line
    return blocks


def block_key(block):
    return block.split(":", 1)[0].strip()


def legal_order(keys):
    pos = {k: i for i, k in enumerate(keys)}
    return all(pos[a] < pos[b] for a, b in PRECEDENCE if a in pos and b in pos)


def subset_split(blocks, mask):
    first = [i for i in range(len(blocks)) if mask >> i & 1]
    second = [i for i in range(len(blocks)) if not mask >> i & 1]
    return first, second


def load_modes(blocks, subsets):
    yield ["string"]
    yield ["file_str"]
    yield ["file_list"]
    n = len(blocks)
    for k in range(1, n):
        yield ["cut", k]
    if subsets:
        keys = [block_key(b) for b in blocks]
        for mask in range(1, 2 ** n - 1):
            first, second = subset_split(blocks, mask)
            if first == list(range(len(first))):
                continue  # a prefix: same as a cut
            if legal_order([keys[i] for i in first + second]):
                yield ["subset", mask]


def load_with_mode(text, mode, tmpdir):
    from pydcop.dcop.yamldcop import load_dcop, load_dcop_from_file

    def write(name, content):
        path = os.path.join(tmpdir, name)
        with open(path, "w", encoding="utf-8") as f:
            f.write(content)
        return path

    kind = mode[0]
    if kind == "string":
        return load_dcop(text)
    if kind == "file_str":
        return load_dcop_from_file(write("one.yaml", text))
    if kind == "file_list":
        return load_dcop_from_file([write("one.yaml", text)])
    blocks = split_blocks(text)
    if kind == "cut":
        first, second = list(range(mode[1])), list(range(mode[1], len(blocks)))
    else:
        first, second = subset_split(blocks, mode[1])
    f1 = write("part1.yaml", "".join(blocks[i] for i in first))
    f2 = write("part2.yaml", "".join(blocks[i] for i in second))
    return load_dcop_from_file([f1, f2])


# ---------------------------------------------------------------------------------------------- one DCOP

def run_spec(spec, subsets, part, tmpdir, srcfile, only_mode=None, verbose=False):
    """Dump the DCOP of `spec`, load it in every mode, report every difference with the reference model.
    Returns (statuses per mode class, observation of the string load)."""
    from pydcop.dcop.yamldcop import dcop_yaml

    exp = expected(spec)
    dcop = build_dcop(spec, srcfile)
    built = observe(dcop, spec)
    d0 = diff(built, exp)
    if d0:
        raise RuntimeError(f"reference model and API-built DCOP disagree on {d0[:4]} for {spec}: "
                           f"{[built.get(k) for k in d0[:4]]} vs {[exp.get(k) for k in d0[:4]]}")
    try:
        text = dcop_yaml(dcop)
    except Exception as e:
        sig = exc_signature(e)
        part.count("evaluations")
        part.violation(f"dump-raised|{sig}", f"dcop_yaml raised {type(e).__name__}: {e} for the DCOP of spec {spec}",
                       {"spec": spec, "mode": ["string"]})
        return {"dump": sig}, None
    if verbose:
        print(text)
    blocks = split_blocks(text)
    part.maxi("sections", len(blocks))
    string_keys, string_exc, string_obs = set(), None, None
    statuses = {}
    modes = [only_mode] if only_mode is not None else list(load_modes(blocks, subsets))
    for mode in modes:
        part.count("evaluations")
        part.count("loads_" + mode[0])
        cls = mode[0]
        case = {"spec": spec, "mode": mode}
        try:
            loaded = load_with_mode(text, mode, tmpdir)
            if loaded is None:
                raise RuntimeError("loader returned None")
            got = observe(loaded, spec)
        except Exception as e:
            sig = exc_signature(e)
            if verbose:
                traceback.print_exc()
            statuses.setdefault(cls, set()).add("raised " + sig)
            if cls == "string":
                string_exc = sig
                part.violation(f"load-raised|{sig}", f"load_dcop(dcop_yaml(dcop)) raised {type(e).__name__}: {e}; spec {spec}", case)
            elif string_exc is None:  # (a text that does not even load from a string is reported once, above)
                part.violation(f"files|{cls}|load-raised|{sig}",
                               f"load_dcop_from_file in mode {mode} raised {type(e).__name__}: {e} although the same text loads from a string; spec {spec}",
                               case)
            continue
        paths = diff(got, exp)
        keys = {}
        for pth in paths:
            keys.setdefault(classify(pth, spec, got, exp), pth)
        statuses.setdefault(cls, set()).add("ok" if not keys else "differs " + ",".join(sorted(keys)))
        if cls == "string":
            string_keys, string_obs = set(keys), got
        for key, pth in sorted(keys.items()):
            if cls != "string" and key in string_keys:
                continue  # same root cause as already reported for the string load of this DCOP
            full = key if cls == "string" else f"files|{cls}|{key}"
            part.violation(full, f"after dump + load ({mode}) {pth} is {got.get(pth, MISSING)!r}, expected {exp.get(pth, MISSING)!r} "
                                 f"({len(paths)} observation points differ); spec {spec}", case)
            if verbose:
                print("DIFF", full, pth, got.get(pth, MISSING), exp.get(pth, MISSING))
    return {k: sorted(v) for k, v in statuses.items()}, string_obs


# ---------------------------------------------------------------------------------------------- enumeration

def init_choices(values):
    out = [None]
    for v in (values[0], values[-1]):
        if v not in out:
            out.append(v)
    return out


def variable_lists(domset, nmax, with_init):
    """All lists of 1..nmax variables over the domains (every domain choice, every initial-value choice)."""
    for n in range(1, nmax + 1):
        for choice in itertools.product(range(len(domset)), repeat=n):
            inits = [init_choices(domset[c][2]) if with_init else [None] for c in choice]
            for init in itertools.product(*inits):
                yield [[VAR_NAMES[i], domset[choice[i]][0], init[i]] for i in range(n)]


def constraint_menu(names, max_arity):
    """Every constraint of the menu on every ordered scope of distinct variables (arity 3: tables tie/inf and lambda)."""
    for arity in range(1, max_arity + 1):
        for scope in itertools.permutations(names, arity):
            scope = list(scope)
            if arity <= 2:
                for tid in EXPR_IDS:
                    if tid == "eq" and arity == 1:
                        continue
                    yield {"kind": "expr", "what": tid, "scope": scope}
                yield {"kind": "extsrc", "what": "ext_cost", "scope": scope}
            for pat in PATTERN_IDS:
                if arity <= 2 or pat in ("tie", "inf"):
                    yield {"kind": "matrix", "what": pat, "scope": scope}
            yield {"kind": "lam", "what": "lam", "scope": scope}
            if arity == 1:
                yield {"kind": "ulam", "what": "lam", "scope": scope}


def named(c, name):
    c = dict(c)
    c["name"] = name
    return c


def mkspec(domset, variables, constraints, agents, objective="min"):
    return {"objective": objective, "domains": [list(d) for d in domset], "variables": variables,
            "constraints": constraints, "agents": agents}


def agent_configs(quick):
    """Agent parts: 1..3 agents x capacity x global default route x symmetric route table x hosting costs."""
    caps = [UNSET, 0, 10]
    drs = [UNSET, 3, 0]
    hostings = [[hd, hs] for hd in (UNSET, 2) for hs in (None, {"c1": 0}, {"c1": 5, "va": 1, "zz": 0.5})]
    for n in (1, 2):
        names = AGENT_NAMES[:n]
        pairs = list(itertools.combinations(names, 2))
        menu = hostings + [[UNSET, {}], [2, {}]] if n == 1 else hostings  # an empty specific table too
        for cap in itertools.product(caps, repeat=n):
            for dr in drs:
                for rv in itertools.product([UNSET, 1, 3, 0], repeat=len(pairs)):
                    for host in itertools.product(menu, repeat=n):
                        yield {
                            "list": [[names[i], cap[i], host[i][0], host[i][1]] for i in range(n)],
                            "default_route": dr,
                            "routes": [[p[0], p[1], v] for p, v in zip(pairs, rv) if v != UNSET],
                            "shared": False,
                        }
    names = AGENT_NAMES
    pairs = list(itertools.combinations(names, 2))
    cap_menu = [[UNSET, UNSET, UNSET], [10, 0, UNSET], [0, 5, 10]]
    host3 = [[UNSET, None], [2, {"c1": 0}], [UNSET, {"c1": 5, "va": 1, "zz": 0.5}]]
    route_vals = [UNSET, 1, 3] if quick else [UNSET, 1, 3, 0.5]
    for cap in cap_menu:
        for dr in drs:
            for rv in itertools.product(route_vals, repeat=3):
                for host in itertools.product(host3, repeat=3):
                    yield {
                        "list": [[names[i], cap[i], host[i][0], host[i][1]] for i in range(3)],
                        "default_route": dr,
                        "routes": [[p[0], p[1], v] for p, v in zip(pairs, rv) if v != UNSET],
                        "shared": False,
                    }
    # the same dict object given as hosting_costs to several agents
    for n in (2, 3):
        for hd in (UNSET, 2):
            for hs in ({"c1": 0}, {"c1": 5, "va": 1}):
                for dr in (UNSET, 3):
                    yield {
                        "list": [[AGENT_NAMES[i], 10, hd if i != 1 else UNSET, hs] for i in range(n)],
                        "default_route": dr,
                        "routes": [[AGENT_NAMES[0], AGENT_NAMES[1], 3]],
                        "shared": True,
                    }


SMALL_AGENTS = [
    {"list": [["a2", 10, 2, {"c1": 0, "vb": 5}], ["a1", UNSET, UNSET, None]], "default_route": 3, "routes": [["a2", "a1", 1]], "shared": False},
    {"list": [["a2", 0, UNSET, {"c2": 1}], ["a1", 10, 2, None], ["a3", 5, 0, {"c1": 5}]], "default_route": UNSET,
     "routes": [["a2", "a1", 3], ["a1", "a3", 0.5]], "shared": False},
    {"list": [["a2", UNSET, 2, None]], "default_route": 0, "routes": [], "shared": False},
]


def all_cases(quick):
    """(family, spec) in a fixed order, simplest families first."""
    # EDGE: empty containers
    yield "edge", mkspec([], [], [], NO_AGENTS)
    yield "edge", mkspec([DI2], [], [], NO_AGENTS)
    yield "edge", mkspec([DS2, DI3], [], [], NO_AGENTS, "max")
    for ag in SMALL_AGENTS:
        yield "edge", mkspec([], [], [], ag)
    yield "edge", mkspec([], [], [], {"list": [["a2", UNSET, UNSET, None], ["a1", UNSET, UNSET, None]], "default_route": UNSET,
                                      "routes": [], "shared": False})
    # VARS: domains and variables with every initial-value choice, nothing else
    for domset in DOMSETS:
        for variables in variable_lists(domset, 3, True):
            yield "vars", mkspec(domset, variables, [], NO_AGENTS)
    # CONS: one constraint of the menu on every ordered scope
    for di, domset in enumerate(DOMSETS):
        # quick: arity 3 (ternary extensional tables, lambdas) only on the first and fourth domain sets
        ar = 3 if (not quick or di in (0, 3)) else 2
        for variables in variable_lists(domset, ar, False):
            names = [v[0] for v in variables]
            for c in constraint_menu(names, ar):
                yield "cons", mkspec(domset, variables, [named(c, "c1")], NO_AGENTS)
    # PAIR: two constraints (names in non-sorted insertion order), every ordered pair of the binary menu
    for domset, doms in (([DI2, DS2], ["di", "ds", "di"]), ([DI3, DSN], ["ds", "ds", "di"])):
        variables = [[VAR_NAMES[i], doms[i], None] for i in range(3)]
        menu = [c for c in constraint_menu(["vb", "va"], 2) if c["scope"] == ["vb", "va"]]
        other = [c for c in constraint_menu(["va", "vc"], 2) if c["scope"] in (["vc", "va"], ["vc"])]
        for c1 in menu:
            for c2 in other:
                yield "pair", mkspec(domset, variables, [named(c1, "c2"), named(c2, "c1")], NO_AGENTS)
    # AGENTS: a fixed 1-variable problem, every agent configuration
    for ag in agent_configs(quick):
        yield "agents", mkspec([DI2], [["va", "di", 0]], [{"kind": "expr", "what": "idx", "scope": ["va"], "name": "c1"}], ag, "max")
    # FULL: every section present at once
    for domset, doms in (([DI2, DS2], ["di", "ds", "di"]), ([DSN, DI3], ["ds", "di", "ds"])):
        variables = [[VAR_NAMES[i], doms[i], init_choices(dom_values({"domains": domset}, doms[i]))[i]] for i in range(3)]
        firsts = [{"kind": "expr", "what": "multi", "scope": ["vb", "va"]}, {"kind": "matrix", "what": "inf", "scope": ["va", "vb"]},
                  {"kind": "lam", "what": "lam", "scope": ["vc", "vb"]}]
        seconds = [{"kind": "expr", "what": "dict", "scope": ["vc"]}, {"kind": "matrix", "what": "float", "scope": ["vc", "va"]},
                   {"kind": "ulam", "what": "lam", "scope": ["va"]}]
        for c1 in firsts:
            for c2 in seconds:
                for ag in SMALL_AGENTS:
                    for objective in ("min", "max"):
                        yield "full", mkspec(domset, variables, [named(c1, "c2"), named(c2, "c1")], ag, objective)


def nontrivial(spec):
    """The dump carries at least one item the loader must rebuild from text with a non-default value."""
    if spec["constraints"] or any(v[2] is not None for v in spec["variables"]):
        return True
    ag = spec["agents"]
    return bool(ag["routes"]) or ag["default_route"] != UNSET or any(
        a[1] != UNSET or a[2] != UNSET or a[3] for a in ag["list"])


# ---------------------------------------------------------------------------------------------- runner API

def shard(args):
    idx, n, quick = args
    part = Part()
    with tempfile.TemporaryDirectory(prefix="vf_c14_", dir=TMP_PARENT) as tmpdir:
        srcfile = os.path.join(tmpdir, "ext_source.py")
        with open(srcfile, "w") as f:
            f.write(EXT_SOURCE)
        for i, (family, spec) in enumerate(all_cases(quick)):
            if i % n != idx:
                continue
            # (3-agent products: cuts only -- 3 agents x every subset split is covered by the FULL family)
            subsets = family == "full" if quick else not (family == "agents" and len(spec["agents"]["list"]) == 3)
            statuses, obs = run_spec(spec, subsets, part, tmpdir, srcfile)
            part.count("dcops")
            part.count("dcops_" + family)
            if nontrivial(spec):
                part.nontriv(repr(spec))
            part.outcome(repr((sorted(statuses.items()), sorted(obs.items(), key=lambda kv: kv[0]) if obs else None)))
            if i in (0, 2000, 9000):
                part.sample({"family": family, "spec": spec, "statuses": statuses, "loaded_from_string": obs})
    return part


def run(ctx):
    ctx.level = "exploration"
    ctx.rule = (
        "all DCOP specs of 6 families, each a full product: EDGE = empty DCOP / domains only / agents only; VARS = 10 domain sets (int/str values, sizes 1-3, 1-2 domains) x all "
        "lists of 1-3 variables x all initial values {none, first, last}; CONS = the domain sets x all lists of 1-2 (thorough 3) "
        "variables x every constraint of the menu {5 expression templates, external-source function, 6 table patterns, python "
        "lambda as NAry/UnaryFunctionRelation} on every ordered scope of arity 1-2 (thorough 3); PAIR = every ordered pair of "
        "binary-menu constraints; AGENTS = 1-3 agents x capacity {absent,0,10} x global default route {unset,3,0} x symmetric "
        "route table per pair {unspecified,1,3,0 | 0.5} x hosting default {unset,2} x specific hosting {none, 1 entry with cost 0, 3 entries}, "
        "plus shared hosting dict objects; FULL = all sections at once. Each DCOP is built with the API, dumped with dcop_yaml "
        "and loaded from the string, from one file as str, from one file as [str], from every 2-file cut of the top-level "
        "sections, and (thorough: every DCOP but the 3-agent products of AGENTS; quick: FULL family) from every 2-file split of the sections into arbitrary "
        "subsets whose concatenation keeps the documented section order; evaluations = loads. Every loaded DCOP is compared "
        "by value with the reference model at every domain, variable, constraint x assignment, agent x (capacity, route to "
        "every agent, hosting cost of every computation name). Non-trivial = the DCOP has a constraint, an initial value or an "
        "agent attribute/cost that is not the constructor default."
    )
    ctx.assumptions = [
        "PyYAML (yaml.dump / FullLoader) is part of the code under test as used by yamldcop, not modelled.",
        "The expression templates' python twins in the check denote the same functions as the template texts; the API-built "
        "DCOP is compared with the reference model before dumping and any disagreement aborts the check as a harness error.",
        "Two-file splits that would put variables before domains, constraints before variables or routes/hosting_costs before "
        "agents are left out: the format documentation requires that order.",
    ]
    ctx.pmap(shard, ctx.rotate([(i, NSHARDS, ctx.quick) for i in range(NSHARDS)]))


def replay(case):
    part = Part()
    spec, mode = case["spec"], case["mode"]  # plain JSON data, nothing to convert
    with tempfile.TemporaryDirectory(prefix="vf_c14_", dir=TMP_PARENT) as tmpdir:
        srcfile = os.path.join(tmpdir, "ext_source.py")
        with open(srcfile, "w") as f:
            f.write(EXT_SOURCE)
        print("spec:", spec)
        print("load mode:", mode)
        statuses, _ = run_spec(spec, False, part, tmpdir, srcfile, only_mode=mode, verbose=True)
        print("status:", statuses)
    for v in part.violations:
        print(v["key"], "::", v["what"])
    return bool(part.violations)
