"""C09 DBA declares termination only on a satisfying assignment (netx).

Real DBA computations on small CSPs (hard constraints at the infinity value 10000), ALL FIFO interleavings, start orders,
initial values and tie picks, horizon H cycles per computation (a safety property: every reachable finished() within the
horizon is examined). Oracle at the very moment any computation calls finished(): the values held by all computations
violate no constraint.
"""
import itertools

from vf.checks import ls_common
from vf.core import gen, netx
from vf.core.runner import Part

INF = 10000
H = 6


class DbaSpec(netx.Spec):
    def __init__(self, spec, params, horizon):
        self.spec, self.params, self.horizon = spec, params, horizon
        self.nfin = 0

    def consuming(self, world, name):
        return world.comps[name].cycle_count < self.horizon

    def on_hook(self, world, name, kind, args):
        if kind == "finished":
            a = {n: c.current_value for n, c in world.comps.items()}
            bad = self.violated(a)
            world.mon.setdefault("fin", []).append((name, tuple(sorted(a.items())), tuple(bad)))
            self.nfin += 1

    def violated(self, a):
        bad = []
        for c in self.spec["cons"]:
            t = c["table"]
            try:
                for n in c["scope"]:
                    t = t[self.spec["vars"][n].index(a[n])]
            except (ValueError, KeyError):
                bad.append(c["name"] + ":unset")
                continue
            if t >= self.params.get("infinity", INF):
                bad.append(c["name"])
        return bad

    def canon_extra(self, world):
        return tuple(world.mon.get("fin", ()))

    def check_state(self, world, event, report):
        if world.exception is not None:
            ev, et, msg, where = world.exception
            report(f"C09|handler-raised|{et}|{netx.site(where)}", f"DBA {self.params} on {self.spec}: event {ev} raised {et}: {msg} at {where}")
            return
        fin = world.mon.get("fin", ())
        if fin:
            name, a, bad = fin[-1]
            if bad:
                first = "first-termination" if len(fin) == 1 else "end-propagation"
                report(f"C09|finished-on-violating-assignment|{first}", f"DBA {self.params} on {self.spec}: {name} called finished() while the assignment {dict(a)} violates {list(bad)}")


def coloring(scope, d):
    if len(scope) == 1:
        return [0] * d
    return [[INF if i == j else 0 for j in range(d)] for i in range(d)]


def instances(tier):
    q = tier == "quick"
    out = []
    # all {0, INF} tables on the pair
    for flat in itertools.product((0, INF), repeat=4):
        t = [[flat[0], flat[1]], [flat[2], flat[3]]]
        for md in (1, 2):
            out.append(({"vars": {"v0": [0, 1], "v1": [0, 1]}, "cons": [{"name": "c0", "scope": ["v0", "v1"], "table": t}], "mode": "min"}, {"max_distance": md, "infinity": INF}, H))
    shapes = {
        "chain3": (["v0", "v1", "v2"], [("v0", "v1"), ("v1", "v2")], 2),
        "triangle": (["v0", "v1", "v2"], [("v0", "v1"), ("v1", "v2"), ("v0", "v2")], 1),
    }
    # (the 4-chain under ALL interleavings exceeds the 600 000-state cap after 20 minutes per instance: it is explored delay-bounded
    # in chain4_family instead)
    for name, (names, edges, diam) in shapes.items():
        for d in (2, 3):
            if d == 3 and (q and name != "chain3" or name == "chain4"):
                continue
            for md in (diam, diam + 1):
                if q and md != diam:
                    continue
                spec = {"vars": {v: list(range(d)) for v in names}, "cons": [{"name": f"c{i}", "scope": list(e), "table": coloring(e, d)} for i, e in enumerate(edges)], "mode": "min"}
                h = (H if not q else 5) if len(names) <= 3 and d == 2 else (3 if q else 5)
                out.append((spec, {"max_distance": md, "infinity": INF}, h))
    # a non-default infinity parameter (hard constraints cost exactly that value): the pair with all {0, 100} tables, the 3-chain
    for flat in itertools.product((0, 100), repeat=4):
        t = [[flat[0], flat[1]], [flat[2], flat[3]]]
        out.append(({"vars": {"v0": [0, 1], "v1": [0, 1]}, "cons": [{"name": "c0", "scope": ["v0", "v1"], "table": t}], "mode": "min"}, {"max_distance": 1, "infinity": 100}, H))
    names, edges = ["v0", "v1", "v2"], [("v0", "v1"), ("v1", "v2")]
    out.append(({"vars": {v: [0, 1] for v in names}, "cons": [{"name": f"c{i}", "scope": list(e), "table": [[100 if a == b else 0 for b in range(2)] for a in range(2)]} for i, e in enumerate(edges)], "mode": "min"}, {"max_distance": 2, "infinity": 100}, 5 if q else H))
    # a too small max_distance is outside the property (max_distance at or above the diameter): not generated
    return out


def chain4_family(tier):
    """Thorough only: 4-chain colouring (2 colours), max_distance 3 and 4, delay-bounded (first / last + <= 3 departures)."""
    if tier == "quick":
        return []
    names, edges = ["v0", "v1", "v2", "v3"], [("v0", "v1"), ("v1", "v2"), ("v2", "v3")]
    spec = {"vars": {v: [0, 1] for v in names}, "cons": [{"name": f"c{i}", "scope": list(e), "table": coloring(e, 2)} for i, e in enumerate(edges)], "mode": "min"}
    return [(spec, {"max_distance": md, "infinity": INF}, 5, sched, None) for md in (3, 4) for sched in ("dev:first:3", "dev:last:3")]


def ring_family(tier):
    """5-cycle colouring (2 colours, 3 on the last variable so that it is satisfiable), max_distance = diameter = 2: the smallest
    graph with a constraint whose two ends are both at distance = diameter of another agent. Far too large for all interleavings
    (> 10^6 states): explored delay-bounded - the canonical 'first' (thorough also 'last') schedule plus every execution with at most
    2 departures from it - and sharded by the initial assignment (48 shards)."""
    names = [f"v{i}" for i in range(5)]
    doms = {v: [0, 1] for v in names}
    doms["v4"] = [0, 1, 2]
    edges = [(names[i], names[(i + 1) % 5]) for i in range(5)]
    spec = {"vars": doms, "cons": [{"name": f"c{i}", "scope": list(e), "table": [[INF if a == b else 0 for b in range(len(doms[e[1]]))] for a in range(len(doms[e[0]]))]} for i, e in enumerate(edges)], "mode": "min"}
    out = []
    scheds = ("dev:first:2",) if tier == "quick" else ("dev:first:2", "dev:last:2", "dev:alt:2")
    for sched in scheds:
        for init in itertools.product(*[range(len(doms[v])) for v in names]):
            out.append((spec, {"max_distance": 2, "infinity": INF}, 3 if tier == "quick" else 5, sched, dict(zip(names, init))))
    return out


def explore(item, part):
    spec, params, horizon = item[:3]
    sched, init = (item[3], item[4]) if len(item) > 3 else ("all", None)
    world, shared, _ = ls_common.build_world(spec, "dba", params)
    sp = DbaSpec(spec, params, horizon)
    ex = netx.Explorer(sp, shared=shared, max_states=600000, schedule=sched)
    if init is not None:
        # this shard: the start events draw exactly this initial assignment (first random answer of on_start)
        ex.succ_filter = lambda ev, choices: ev[0] != "start" or not choices or choices[0] == init[ev[1]]
        part.count("delay_bounded_shards")

    def report(key, what, w, hist):
        part.violation(key, what, {"spec": spec, "params": params, "horizon": horizon, "history": netx.unroll(hist)})

    st = ex.run(world, report)
    for k in ("states", "transitions", "traces", "choice_points", "revisits"):
        part.count(k, st[k])
    part.maxi("depth", st["max_depth"])
    part.maxi("states_per_instance", st["states"])
    part.count("evaluations")
    part.count("finished_notifications_examined", sp.nfin)
    if sp.nfin:
        part.count("instances_with_termination")
    if ex.capped:
        part.count("capped_instances")
    fins = {d for d in ex.end_digests}
    part.outcome((repr(spec), repr(params), sched, repr(init), tuple(sorted(fins))))
    if any("fin" in d or "(" in d for d in fins):
        part.nontriv((repr(spec), repr(params), sched, repr(init)))
    part.sample({"spec": spec, "params": params, "states": st["states"], "traces": st["traces"]}, cap=1)


def shard(item):
    part = Part()
    explore(item, part)
    return part


def run(ctx):
    ctx.level = "model_checking"
    items = instances(ctx.tier)
    ctx.rule = (
        "explicit-state search of the real DBA computations over a virtual per-channel-FIFO network on small CSPs with hard constraints at "
        "infinity=10000 (and, for the pair and the 3-chain, the non-default infinity=100): the pair with ALL 16 {0,infinity} tables, graph colouring on the 3-chain, the triangle with 2 and "
        f"3 colours, max_distance in {{diameter, diameter+1}}; ALL start orders, delivery interleavings, initial values and tie picks with state "
        f"caching, horizon {H} cycles per computation (4-5 for the larger ones). Oracle evaluated inside every finished() notification: the "
        "values held by all computations at that moment violate no constraint. Plus the 5-cycle (2 colours, 3 on one variable, max_distance 2 = "
        "diameter), delay-bounded: the canonical 'first' schedule (thorough: also 'last' and alternating) and every execution with at most 2 "
        "departures from it, for every initial assignment (one shard each), horizon 3 (thorough 5) cycles; thorough also the 4-chain, delay-bounded with <= 3 departures. evaluations = instances / shards"
    )
    ctx.assumptions = ["Network model: one FIFO channel per ordered pair of computations.", "State merging by canonical form; the log of finished() observations is part of the state.",
                       "Safety property checked up to a cycle horizon; weights grow without bound on unsatisfiable instances."]
    items.sort(key=lambda it: -(len(it[0]["vars"]) * 10 + len(it[0]["vars"]["v0"]) * 5 + it[2]))
    items = items + ring_family(ctx.tier) + chain4_family(ctx.tier)
    ctx.pmap(shard, items)
    if ctx.part.counters.get("capped_instances"):
        ctx.exhaustive = False
        ctx.rule += f" CAP: {ctx.part.counters['capped_instances']} instance(s) hit the 600000-state cap; everything below the cap was explored."


def replay(case):
    world, shared, _ = ls_common.build_world(case["spec"], "dba", case["params"])
    sp = DbaSpec(case["spec"], case["params"], case["horizon"])
    found = []

    def observe(w, ev):
        print(ev, {n: (c.current_value, c.cycle_count) for n, c in w.comps.items()}, w.mon.get("fin"))
        sp.check_state(w, ev, lambda k, what: found.append((k, what)))

    netx.replay(world, sp, case["history"], observe)
    for k, what in found:
        print("FOUND", k, "::", what)
    return bool(found)
