"""C05 Max-Sum without damping is exact on acyclic factor graphs (netx).

Real factor graph, real (A-)Max-Sum factor and variable computations with damping=0, noise=0. Instances are filtered by
brute force to those with a UNIQUE optimum. Small instances: ALL FIFO interleavings and start orders (state caching);
larger ones: canonical schedules. Synchronous Max-Sum is run up to a round horizon well beyond the diameter, A-Max-Sum
until quiescence.
"""
import itertools

from vf.checks import ls_common
from vf.core import gen, netx
from vf.core.runner import Part

SAME_COUNT = 4


class MsSpec(netx.Spec):
    def __init__(self, algo, spec, rounds):
        self.algo, self.spec, self.rounds = algo, spec, rounds
        self.mode = spec["mode"]
        self.opt, self.args = gen.brute_force(spec)

    def consuming(self, world, name):
        if self.algo == "maxsum":  # synchronous: round horizon
            return world.comps[name].current_cycle < self.rounds
        return True

    def canon_extra(self, world):
        return ()

    def feats(self):
        n = len(self.spec["vars"])
        ar = sorted({len(c["scope"]) for c in self.spec["cons"]})
        return f"{self.mode}+n{n}+arity{''.join(map(str, ar))}" + ("+forest" if len(gen.components(self.spec)) > 1 else "")

    def check_state(self, world, event, report):
        if world.exception is not None:
            ev, et, msg, where = world.exception
            report(f"C05|{self.algo}|handler-raised|{et}|{netx.site(where)}", f"{self.algo} on {self.spec}: event {ev} raised {et}: {msg} at {where}")

    def check_end(self, world, report):
        if world.exception is not None:
            return
        names = sorted(self.spec["vars"])
        a = {n: world.comps[n].current_value for n in names}
        exp = self.args[0]
        if a != exp:
            unset = [n for n in names if a[n] is None]
            cycles = {n: getattr(c, "current_cycle", None) for n, c in world.comps.items()}
            kind = "value-unset" if unset else "not-the-optimum"
            # root cause test (signature only): an A-Max-Sum factor that is still waiting for the costs of one of its variables at
            # quiescence never spoke: the run stopped before any information crossed that factor
            waiting = sorted(n for n, c in world.comps.items() if hasattr(c, "factor") and hasattr(c, "_costs") and len(c._costs) < len(c.factor.dimensions))
            if self.algo.startswith("amaxsum") and waiting:
                start = self.algo.partition(":")[2] or "leafs"
                report(f"C05|amaxsum|quiescent-with-factors-still-waiting|start_messages={start}", f"{self.algo} on {self.spec}: quiescent with factors {waiting} still waiting for a variable that never speaks; selected {a}, the unique optimum is {exp}")
                return
            report(f"C05|{self.algo}|{kind}|{self.feats()}", f"{self.algo} on {self.spec}: selected {a} at the end (cycles {cycles}), the unique optimum is {exp} (cost {self.opt})")


def diameter(spec):
    # factor graph distance bound: number of nodes
    return len(spec["vars"]) + len(spec["cons"])


def algo_params(algo):
    """'amaxsum' = default start_messages (leafs); 'amaxsum:leafs_vars' = every variable speaks at start."""
    name, _, start = algo.partition(":")
    params = {"damping": 0, "noise": 0}
    if start:
        params["start_messages"] = start
    return name, params


def explore(algo, spec, schedule, part):
    name, params = algo_params(algo)
    world, shared, _ = ls_common.build_world(spec, name, params)
    rounds = 2 * diameter(spec) + SAME_COUNT + 2
    sp = MsSpec(algo, spec, rounds)
    ex = netx.Explorer(sp, shared=shared, schedule=schedule, max_states=400000)

    def report(key, what, w, hist):
        part.violation(key, what, {"algo": algo, "spec": spec, "schedule": schedule, "history": netx.unroll(hist)})

    st = ex.run(world, report)
    for k in ("states", "transitions", "traces", "revisits"):
        part.count(k, st[k])
    part.maxi("depth", st["max_depth"])
    part.maxi("states_per_instance", st["states"])
    part.count("evaluations")
    part.count("runs_" + algo)
    if ex.capped:
        part.count("capped_instances")
    part.outcome((algo, repr(spec), schedule, tuple(sorted(ex.end_digests))))
    part.nontriv((algo, repr(spec)))
    if st["states"] > 100:
        part.sample({"algo": algo, "spec": spec, "schedule": schedule, "states": st["states"], "traces": st["traces"]}, cap=2)


def run_fast(algo, spec, schedule, part):
    """One canonical-schedule execution without snapshots (wide table sweeps)."""
    name, params = algo_params(algo)
    world, shared, _ = ls_common.build_world(spec, name, params)
    sp = MsSpec(algo, spec, 2 * diameter(spec) + SAME_COUNT + 2)

    def report(key, what, w, hist):
        part.violation(key, what, {"algo": algo, "spec": spec, "schedule": schedule, "history": netx.unroll(hist)})

    st = netx.run_single(world, sp, schedule, report)
    part.count("transitions", st["steps"])
    part.count("states", st["steps"] + 1)
    part.count("traces")
    part.count("evaluations")
    part.count("sweep_runs_" + algo)
    if not st["ended"]:
        part.count("capped_instances")
    part.outcome((algo, repr(spec), schedule, repr(sorted((n, c.current_value) for n, c in world.comps.items() if n in spec["vars"]))))
    part.nontriv((algo, repr(spec)))


_BASE_MENU = gen.T3_BIN + [[[0, 3], [1, 2]], [[2, 1], [0, 5]], [[0, 2], [5, 5]], [[5, 3], [1, 1]], [[3, 3], [5, 4]]]
SWEEP_MENU = []
for _t in _BASE_MENU:  # both orientations: which end of the edge indexes the rows matters along a chain
    for _o in (_t, [list(r) for r in zip(*_t)]):
        if _o not in SWEEP_MENU:
            SWEEP_MENU.append(_o)


def sweep_instances(tier):
    """4-variable trees (chain and star) with EVERY triple of tables of a 17-table menu (11 tables and their transposes; incl. tables with a dominated row or a flat
    row: a factor's costs then change late and in one direction only), unique optimum; thorough adds the 5-chain over the first 7 tables."""
    out = []
    names = [f"v{i}" for i in range(4)]
    shapes = {"chain4": [("v0", "v1"), ("v1", "v2"), ("v2", "v3")], "star4": [("v0", "v1"), ("v0", "v2"), ("v0", "v3")]}
    for mode in ("min", "max"):
        for sname, edges in shapes.items():
            for tabs in itertools.product(SWEEP_MENU, repeat=3):
                spec = {"vars": {v: [0, 1] for v in names}, "cons": [{"name": f"c{i}", "scope": list(e), "table": t} for i, (e, t) in enumerate(zip(edges, tabs))], "mode": mode}
                if unique(spec):
                    out.append(spec)
        if tier != "quick":
            n5 = [f"v{i}" for i in range(5)]
            for tabs in itertools.product(SWEEP_MENU[2:9], repeat=4):
                spec = {"vars": {v: [0, 1] for v in n5}, "cons": [{"name": f"c{i}", "scope": [n5[i], n5[i + 1]], "table": t} for i, t in enumerate(tabs)], "mode": mode}
                if unique(spec):
                    out.append(spec)
    return out


def sweep_shard(items):
    part = Part()
    for algo, spec, sched in items:
        run_fast(algo, spec, sched, part)
    return part


def unique(spec):
    opt, args = gen.brute_force(spec)
    return len(args) == 1


def instances(tier):
    """(spec, schedule-set) ; schedule-set 'all' or canonical."""
    q = tier == "quick"
    out = []
    kept = rejected = 0
    t012 = list(gen.tables_01(2, 2, values=(0, 1, 2)))
    u_menu = [[0, 1], [2, 0], [0, 0]]
    menu = gen.T3_BIN + [[[0, 3], [1, 2]], [[2, 1], [0, 5]]]
    for mode in ("min", "max"):
        # pair: all {0,1,2} tables, with and without unary factors
        for t in t012:
            for u in ([None] if q else [None] + u_menu[:2]):
                cons = [{"name": "c0", "scope": ["v0", "v1"], "table": t}]
                if u is not None:
                    cons.append({"name": "u0", "scope": ["v0"], "table": u})
                out.append(({"vars": {"v0": [0, 1], "v1": [0, 1]}, "cons": cons, "mode": mode}, "all"))
        out.append(({"vars": {"v0": [0, 1, 2], "v1": [0, 1, 2]}, "cons": [{"name": "c0", "scope": ["v0", "v1"], "table": ls_common.T3x3}], "mode": mode}, "all"))
        # chain of 3: menus, all interleavings for a few, canonical schedules for the rest
        for i, (a, b) in enumerate(itertools.product(menu, repeat=2)):
            spec = {"vars": {v: [0, 1] for v in ("v0", "v1", "v2")}, "cons": [{"name": "c0", "scope": ["v0", "v1"], "table": a}, {"name": "c1", "scope": ["v1", "v2"], "table": b}], "mode": mode}
            out.append((spec, "all" if (i % 16 == 0 and not q) else "canon"))
        # star of 4, chains of 4-5 (thorough up to 6), a forest, a ternary factor
        for k in (4, 5) if q else (4, 5, 6):
            for shift in range(2 if q else 4):
                names = [f"v{i}" for i in range(k)]
                cons = [{"name": f"c{i}", "scope": [names[i], names[i + 1]], "table": menu[(2 * i + shift) % len(menu)]} for i in range(k - 1)]
                out.append(({"vars": {v: [0, 1] for v in names}, "cons": cons, "mode": mode}, "canon"))
                # offsets: large constant added to every table (targets the stability cut-off)
                cons2 = [dict(c, table=[[x + 100 for x in row] for row in c["table"]]) for c in cons]
                out.append(({"vars": {v: [0, 1] for v in names}, "cons": cons2, "mode": mode}, "canon"))
        for shift in range(2 if q else 4):
            cons = [{"name": f"c{i}", "scope": ["v0", f"v{i}"], "table": menu[(i + shift) % len(menu)]} for i in range(1, 4)]
            out.append(({"vars": {f"v{i}": [0, 1] for i in range(4)}, "cons": cons, "mode": mode}, "canon"))
        out.append(({"vars": {f"v{i}": [0, 1] for i in range(4)}, "cons": [{"name": "c0", "scope": ["v0", "v1"], "table": menu[2]}, {"name": "c1", "scope": ["v2", "v3"], "table": menu[4]}], "mode": mode}, "canon"))
        out.append(({"vars": {f"v{i}": [0, 1] for i in range(3)}, "cons": [{"name": "c0", "scope": ["v0", "v1", "v2"], "table": ls_common.TERN[0]}], "mode": mode}, "canon"))
    res = []
    for spec, sched in out:
        if unique(spec):
            res.append((spec, sched))
            kept += 1
        else:
            rejected += 1
    return res, kept, rejected


CANON = ("first", "last", "alt", "alt3")


def shard(items):
    part = Part()
    for algo, spec, sched in items:
        explore(algo, spec, sched, part)
    return part


def run(ctx):
    ctx.level = "model_checking"
    inst, kept, rejected = instances(ctx.tier)
    ctx.extra["instances_with_unique_optimum"] = kept
    ctx.extra["instances_rejected_tie"] = rejected
    jobs = []
    for spec, sched in inst:
        for algo in ("maxsum", "amaxsum", "amaxsum:leafs_vars"):
            if sched == "all":
                jobs.append((algo, spec, "all"))
            else:
                for s in CANON:
                    jobs.append((algo, spec, s))
    ctx.rule = (
        "explicit-state search of the real Max-Sum / A-Max-Sum factor and variable computations (real factor graph, damping=0, noise=0) over a "
        "virtual per-channel-FIFO network on acyclic instances filtered by brute force to a UNIQUE optimum (pair: all {0,1,2} tables (+ unary "
        "factors thorough), 3-valued pair, chains of 3-5 (6) variables and stars over an 8-table menu incl. +100 offsets, a forest, a ternary "
        f"factor; min and max): pairs (and a slice of the 3-chains, thorough) under ALL start orders and delivery interleavings, the others under "
        f"the canonical schedules {CANON}; synchronous Max-Sum up to a horizon of 2*(#nodes)+SAME_COUNT+2 rounds, A-Max-Sum until quiescence. "
        "Plus a wide sweep: 4-variable chain and star with EVERY triple of tables of a 17-table menu (11 tables + transposes; thorough: the 5-chain over 7 tables), one "
        "execution each of synchronous Max-Sum (schedule first) and A-Max-Sum leafs_vars (first, last), run in place without snapshots. "
        "Oracle at every maximal path: the selected assignment is the unique optimum, no handler raised. evaluations = explorations + sweep runs"
    )
    ctx.assumptions = ["Network model: one FIFO channel per ordered pair of computations.", "State merging by canonical form.",
                       "Canonical-schedule runs cover one delivery order each (first/last/alternating enabled event), not all interleavings."]
    jobs.sort(key=lambda j: -(len(j[1]["vars"]) + (5 if j[2] == "all" else 0)))
    n = 64
    ctx.pmap(shard, [jobs[i::n] for i in range(n)])
    # wide table sweep, one canonical execution per (instance, algorithm, schedule), no snapshots
    sweep = []
    for spec in sweep_instances(ctx.tier):
        sweep.append(("maxsum", spec, "first"))
        for sched in ("first", "last"):
            sweep.append(("amaxsum:leafs_vars", spec, sched))
    ctx.extra["sweep_instances_with_unique_optimum"] = len(sweep) // 3
    ctx.pmap(sweep_shard, [sweep[i::n] for i in range(n)])
    if ctx.part.counters.get("capped_instances"):
        ctx.exhaustive = False
        ctx.rule += f" CAP: {ctx.part.counters['capped_instances']} exploration(s) hit the 400000-state cap."


def replay(case):
    algo, spec = case["algo"], case["spec"]
    name, params = algo_params(algo)
    world, shared, _ = ls_common.build_world(spec, name, params)
    sp = MsSpec(algo, spec, 2 * diameter(spec) + SAME_COUNT + 2)
    found = []

    def observe(w, ev):
        sp.check_state(w, ev, lambda k, what: found.append((k, what)))

    w = netx.replay(world, sp, case["history"], observe)
    print({n: (getattr(c, "current_value", None), getattr(c, "current_cycle", None)) for n, c in w.comps.items()})
    if not [e for e in netx.enabled_events(w, sp)]:
        sp.check_end(w, lambda k, what: found.append((k, what)))
    for k, what in found:
        print("FOUND", k, "::", what)
    return bool(found)
