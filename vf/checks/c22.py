"""C22 Orchestrated solve terminates and reports a true optimal result (THRX + instance enumeration).

Every execution is the real `run_local_thread_dcop -> deploy_computations -> run(timeout)` sequence of `pydcop solve`
(thread mode, DPOP) under the cooperative scheduler with virtual time. Deviation-bounded exploration of the thread
schedule, for every instance x agent set x distribution of the family.
"""
import itertools

from vf.checks import rt_common
from vf.core import gen, thrx
from vf.core.runner import Part

TIMEOUT = 10


def mappings(comps, agents):
    """Every mapping computation -> agent (agents may stay empty)."""
    for assign in itertools.product(agents, repeat=len(comps)):
        m = {a: [] for a in agents}
        for c, a in zip(comps, assign):
            m[a].append(c)
        yield m


def instances(tier):
    q = tier == "quick"
    B = gen.T3_BIN
    specs = []
    for mode in ("min", "max"):
        specs.append({"vars": {"v0": [0, 1], "v1": [0, 1]}, "cons": [{"name": "c0", "scope": ["v0", "v1"], "table": B[2]}], "mode": mode})
        specs.append({"vars": {"v0": [0, 1], "v1": [0, 1]}, "cons": [{"name": "c0", "scope": ["v0", "v1"], "table": [[0, 10000], [5, 1]]}], "mode": mode, "costs": {"v0": [3, 0]}})
        specs.append({"vars": {"v0": [0, 1], "v1": [0, 1], "v2": [0, 1]}, "cons": [{"name": "c0", "scope": ["v0", "v1"], "table": B[2]}, {"name": "c1", "scope": ["v1", "v2"], "table": B[0]}], "mode": mode})
        specs.append({"vars": {"v0": [0, 1], "v1": [0, 1], "v2": [0, 1]}, "cons": [{"name": "c0", "scope": ["v0", "v1"], "table": B[4]}], "mode": mode})  # isolated v2
        if not q:
            specs.append({"vars": {"v0": [0, 1], "v1": [0, 1], "v2": [0, 1]}, "cons": [{"name": "c0", "scope": ["v0", "v1"], "table": B[2]}, {"name": "c1", "scope": ["v1", "v2"], "table": B[0]}, {"name": "c2", "scope": ["v0", "v2"], "table": B[5]}], "mode": mode})
            specs.append({"vars": {"v0": [0, 1, 2]}, "cons": [{"name": "c0", "scope": ["v0"], "table": [2, 0, 1]}], "mode": mode})
    jobs = []
    # a deeper pseudo-tree: root a (most neighbours), child b with two children c (back edge to a) and d: the children of a
    # non-root node have different separators; one agent per variable and everything on two agents
    B3 = [B[2], B[0], [[1, 0], [0, 5]]]
    edges = [("a", "b"), ("b", "c"), ("a", "c"), ("b", "d"), ("a", "e"), ("a", "f")]
    for mode in ("min", "max"):
        deep = {"vars": {v: [0, 1] for v in "abcdef"}, "cons": [{"name": f"c{i}", "scope": list(e), "table": B3[i % 3]} for i, e in enumerate(edges)], "mode": mode}
        jobs.append({"spec": deep, "agents": [f"a{i}" for i in range(6)], "mapping": {f"a{i}": [v] for i, v in enumerate("abcdef")}, "algo": "dpop", "timeout": TIMEOUT})
        if not q or mode == "min":
            jobs.append({"spec": deep, "agents": ["a0", "a1"], "mapping": {"a0": ["a", "c", "e"], "a1": ["b", "d", "f"]}, "algo": "dpop", "timeout": TIMEOUT})
    for spec in specs:
        comps = sorted(spec["vars"])
        agent_sets = [["a0", "a1"]] if (q or len(comps) < 3) else [["a0", "a1"], ["a0", "a1", "a2"]]
        if len(comps) == 3 and q:
            agent_sets = [["a0", "a1", "a2"]]
        for agents in agent_sets:
            maps = list(mappings(comps, agents))
            if q:
                # quick: the all-on-one, the spread-out and the mixed mappings
                keep = [maps[0], maps[-1]] + [m for m in maps if all(len(v) <= 1 for v in m.values()) or sorted(map(len, m.values())) == [0, 1, 2][-len(agents):]][:2]
                maps = []
                for m in keep:
                    if m not in maps:
                        maps.append(m)
            for m in maps:
                jobs.append({"spec": spec, "agents": agents, "mapping": m, "algo": "dpop", "timeout": TIMEOUT})
            for method in ("oneagent", "adhoc", "gh_cgdp"):
                if method == "oneagent" and len(agents) < len(comps):
                    continue
                jobs.append({"spec": spec, "agents": agents, "method": method, "algo": "dpop", "timeout": TIMEOUT})
    return jobs


def judge(job, choices, result, outcome, part, monitor=None):
    spec = job["spec"]
    case = {"job": job, "choices": choices}
    where = f"{spec['mode']} {len(spec['vars'])}vars agents={job['agents']} dist={job.get('mapping') or job.get('method')}"
    if outcome["abort"] and outcome["abort"][0] in ("divergence",):
        raise RuntimeError("replay divergence: " + str(outcome["abort"]))
    if outcome["crash"]:
        et = outcome["crash"][0]
        part.violation(f"C22|main-thread-raised|{et}", f"{where}: the solve sequence raised {outcome['crash'][:2]}", case)
        return "crash"
    if outcome["abort"]:
        kind = outcome["abort"][0]
        part.violation(f"C22|no-termination|{kind}", f"{where}: {outcome['abort'][1]} (thread errors {outcome['thread_errors']})", case)
        return "abort:" + kind
    if result.get("dist_error"):
        part.violation(f"C22|distribution-raised|{result['dist_error'][0]}|dpop-footprint", f"{where}: {job.get('method')}.distribute with DPOP's own computation_memory/communication_load raised {result['dist_error']}", {"job": job, "choices": []})
    if result["status"] != "OK":
        part.violation(f"C22|ended-by|{result['status']}", f"{where}: orchestrator status {result['status']} at virtual t={result['clock']:.2f}s (thread errors {outcome['thread_errors']})", case)
        return "status:" + str(result["status"])
    a = result["assignment"]
    names = sorted(spec["vars"])
    if sorted(a) != names or any(a[n] not in spec["vars"][n] for n in names):
        part.violation("C22|assignment-incomplete", f"{where}: reported assignment {a}", case)
        return "incomplete"
    opt, args = gen.brute_force(spec)
    cost_all = gen.ref_cost(spec, a)
    if not gen.close(cost_all, opt):
        part.violation(f"C22|not-optimal|{spec['mode']}", f"{where}: reported assignment {a} costs {cost_all}, optimum {opt}", case)
        return "suboptimal"
    hard, soft = rt_common.ref_accounting(spec, a)
    if result["violation"] != hard or not gen.close(result["cost"], soft):
        part.violation("C22|reported-cost-mismatch", f"{where}: reported cost={result['cost']} violation={result['violation']} but the assignment {a} accounts for cost={soft} violation={hard}", case)
        return "cost-mismatch"
    return "ok"


def run_job(args):
    job, bound = args
    part = Part()
    undo = thrx.install()
    try:
        with rt_common.sandbox():
            scenario = rt_common.solve_scenario(job)

            def on_exec(choices, sched, result, outcome):
                verdict = judge(job, choices, result, outcome, part)
                part.count("evaluations")
                part.count("traces")
                part.count("transitions", outcome["points"])
                part.maxi("points", outcome["points"])
                part.outcome((repr(job.get("mapping") or job.get("method")), repr(job["spec"]), verdict, repr(result and sorted(result["assignment"].items()))))
                if sum(1 for c in choices if c) > 0:
                    part.nontriv((repr(job), tuple(choices)))
                if part.counters["evaluations"] == 2:
                    part.sample({"job": job, "choices": choices[:60], "result": result, "points": outcome["points"]}, cap=1)

            ex, nodes = thrx.explore(scenario, bound, on_exec, horizon=60.0, policy=job.get("policy", "fair"))
            part.count("states", nodes + 1)
            if job.get("policy"):
                part.count("executions_under_policy_" + job["policy"].replace(":", "_"), ex)
    finally:
        thrx.uninstall(undo)
    return part


POLICIES_QUICK = ("lifo", "name-desc", "slow:orchestrator")
POLICIES_THOROUGH = ("lifo", "name", "name-desc", "slow:orchestrator", "slow:a0")


def run(ctx):
    ctx.level = "model_checking"
    jobs = instances(ctx.tier)
    bound_small, bound_big = (1, 1) if ctx.quick else (2, 1)
    items = []
    for j in jobs:
        small = len(j["spec"]["vars"]) <= 2
        items.append((j, bound_small if small else bound_big))
        # other DEFAULT schedules (a different base point of the deviation-bounded tree): quick = the default execution only,
        # thorough = plus every single deviation from it
        for pol in (POLICIES_QUICK if ctx.quick else POLICIES_THOROUGH):
            items.append((dict(j, policy=pol), 0 if (ctx.quick or not small) else 1))  # thorough: single deviations on the 2-variable instances
    ctx.rule = (
        "stateless deviation-bounded exploration of the thread schedule of the REAL orchestrated solve (run_local_thread_dcop, "
        "deploy_computations, run(timeout=10 virtual s), DPOP, thread-mode agents) under a cooperative scheduler with virtual time: per "
        f"(DCOP instance x agent set x distribution) the fair default schedule plus every schedule with <= {bound_small} deviation(s) "
        f"(2-variable instances) / <= {bound_big} (3-variable instances), and the same from other default schedules (most-recently-run "
        f"thread first, by thread name descending, a slow orchestrator thread; thorough: also by name ascending and a slow agent a0): their "
        f"default execution (thorough: plus every single deviation); distributions: every mapping computation->agent (quick: a "
        "representative subset) plus the outputs of oneagent, adhoc, gh_cgdp. Oracle per execution: status OK before the timeout, assignment "
        "complete, brute-force optimal, reported cost/violation equal to the reference accounting. states = schedule-tree nodes (distinct "
        "decision prefixes), transitions = scheduling points executed, traces = executions; non-trivial = execution with >= 1 deviation"
    )
    ctx.assumptions = [
        "Scheduling points at synchronisation operations only (thread start/exit/join, Event, queue put/get, sleep, timers); preemption inside other code is not explored.",
        "In-process transport only; virtual time (1 ms per scheduling point, jumps to the earliest deadline when idle).",
    ]
    ctx.pmap(run_job, sorted(items, key=lambda it: -(len(it[0]["spec"]["vars"]) * 10 + it[1] * 100)))


def replay(case):
    job, choices = case["job"], case["choices"]
    undo = thrx.install()
    part = Part()
    try:
        with rt_common.sandbox():
            outs = []
            for _ in range(2):
                sched, result, outcome = thrx.execute(rt_common.solve_scenario(job), choices, horizon=60.0, policy=job.get("policy", "fair"))
                outs.append((result, outcome["abort"], outcome["crash"] and outcome["crash"][:2], outcome["points"]))
            verdict = judge(job, choices, result, outcome, part)
    finally:
        thrx.uninstall(undo)
    if repr(outs[0]) != repr(outs[1]):
        raise RuntimeError(f"replay is not deterministic: {outs}")
    print("result:", outs[0])
    print("verdict:", verdict)
    return verdict != "ok"
