"""C03 MGM and MGM2 never worsen the global cost between cycles; exclusive movers (netx, see ls_common)."""
from vf.checks import ls_common

PROPS = ["C03"]
RULE = (
    "explicit-state search of the real MGM/MGM2 computations over a virtual per-channel-FIFO network: per instance "
    "(shape x cost tables x own-value costs on/off x min/max x stop_cycle horizon) ALL start orders, delivery interleavings, initial "
    "values and random answers, with state caching; oracle on every completed cycle boundary c->c+1 (assignment A_c = values held when "
    "each computation's cycle counter became c): reference global cost (constraints + own value costs) not worse, and no two "
    "constraint-sharing variables both changed unless they exchanged go?(True) both ways in that cycle. evaluations = instances; "
    "non-trivial instance = more than one distinct end observation"
)


def run(ctx):
    ls_common.run_jobs(ctx, ls_common.mgm_jobs(ctx.tier, PROPS), RULE)


def replay(case):
    return ls_common.replay_case(case, PROPS)
