"""C18 Agent messaging delivers each message once, by priority, FIFO per sender (THRX with line-level points).

Harness: a real Agent (InProcessCommunicationLayer) with its real `_run` loop thread, a recording computation, poster
threads posting through the agent's own Messaging (local) or through a second agent's Messaging + communication
layer (remote), optionally a late registration of the destination computation, then clean_shutdown() + join().
Scheduling points: synchronisation operations + every line of Messaging.post_msg / next_msg /
_on_computation_registration and Agent._run / clean_shutdown (sys.settrace), so that check-then-act windows between
synchronisation operations are schedulable. Deviation-bounded exploration.
"""
import itertools

from vf.checks import rt_common
from vf.core import thrx
from vf.core.runner import Part

TRACE = {
    ("infrastructure/communication.py", "post_msg"),
    ("infrastructure/communication.py", "next_msg"),
    ("infrastructure/communication.py", "_on_computation_registration"),
    ("infrastructure/communication.py", "shutdown"),
    ("infrastructure/agents.py", "_run"),
    ("infrastructure/agents.py", "clean_shutdown"),
}

# per variant: posters = list of (route, [(type, ...)]) ; route: local | remote
VARIANTS = {
    "local-same-type": {"posters": [("local", [20, 20]), ("local", [20, 20])], "late": False},
    "local-mixed": {"posters": [("local", [20, 10]), ("local", [5, 20])], "late": False},
    "remote-mixed": {"posters": [("remote", [20, 10]), ("local", [10, 20])], "late": False},
    "late-registration": {"posters": [("local", [20, 20]), ("local", [10, 20])], "late": True},
    "late-remote": {"posters": [("remote", [20, 20]), ("local", [20, 5])], "late": True},
    "late-three": {"posters": [("local", [20, 20, 20])], "late": True},
    # the sending agent learns the hosting agent's address only together with the computation's registration
    "late-remote-unknown-agent": {"posters": [("remote", [20, 20])], "late": True, "address_with_registration": True},
    "shutdown-race": {"posters": [("local", [20])], "late": False, "main_posts": [20]},
}


def scenario_for(variant):
    cfg = VARIANTS[variant]

    def scenario(sched):
        from pydcop.infrastructure.agents import Agent
        from pydcop.infrastructure.communication import InProcessCommunicationLayer
        from pydcop.infrastructure.computations import Message, MessagePassingComputation, register

        obs = {"handled": [], "posted": [], "returned": [], "shutdown_called_at": None, "dequeues": [], "spans": []}

        class Rec(MessagePassingComputation):
            @register("m")
            def _on_m(self, sender, msg, t):
                obs["handled"].append((sender, msg.content, len(obs["returned"]), tuple(obs["returned"])))

        a1 = Agent("a1", InProcessCommunicationLayer())
        a2 = Agent("a2", InProcessCommunicationLayer())  # only its Messaging / comm layer are used (thread never started)
        comp = Rec("c")
        # a2 knows where a1 and (later) c are
        if not cfg.get("address_with_registration"):
            a2.discovery.register_agent("a1", a1.address, publish=False)
        if not cfg["late"]:
            a1.add_computation(comp)
            a2.discovery.register_computation("c", "a1", publish=False)
        a1.start(run_computations=True)

        def poster(pid, route, types):
            def body():
                for k, ty in enumerate(types):
                    mid = (pid, k, ty)
                    obs["posted"].append(mid)
                    m = Message("m", mid)
                    obs["spans"].append(["post", len(obs["spans"]), None])
                    span = obs["spans"][-1]
                    if route == "local":
                        a1._messaging.post_msg(f"s{pid}", "c", m, ty)
                    else:
                        a2._messaging.post_msg(f"s{pid}", "c", m, ty)
                    obs["spans"].append(["post-end", len(obs["spans"]), span[1]])
                    obs["returned"].append(mid)

            return body

        threads = []
        for pid, (route, types) in enumerate(cfg["posters"]):
            if route == "remote":
                # the source computation of a remote message must be known to the sending agent's discovery
                a2.discovery.register_computation(f"s{pid}", "a2", publish=False)
            t = thrx.VThread(target=poster(pid, route, types), name=f"poster{pid}")
            threads.append(t)
        for t in threads:
            t.start()
        if cfg["late"]:
            def registrar():
                obs["spans"].append(["reg", len(obs["spans"]), None])
                a1.add_computation(comp)
                if cfg.get("address_with_registration"):
                    # what the directory's notification does: computation, hosting agent and its address at once
                    a2.discovery.register_computation("c", "a1", a1.address, publish=False)
                else:
                    a2.discovery.register_computation("c", "a1", publish=False)
                obs["spans"].append(["reg-end", len(obs["spans"]), None])
                comp.start()

            # registration is an operation of the hosting agent: in the runtime it happens on the agent thread (deploy
            # message); here a dedicated thread does it, which is the documented public API (Agent.add_computation)
            r = thrx.VThread(target=registrar, name="registrar")
            r.start()
            threads.append(r)
        for t in threads:
            t.join()
        for ty in cfg.get("main_posts", []):
            mid = (9, 0, ty)
            obs["posted"].append(mid)
            a1._messaging.post_msg("s9", "c", Message("m", mid), ty)
            obs["returned"].append(mid)
        obs["before_shutdown"] = list(obs["returned"])
        a1.clean_shutdown()
        a1.join()
        obs["thread_alive"] = a1.t.is_alive()
        return obs

    return scenario


def registration_overlaps_a_post(obs):
    """True iff some post_msg call was in progress while the registration was (a post racing with the registration)."""
    sp = obs["spans"]
    reg = [i for k, i, _ in sp if k == "reg"]
    reg_end = [i for k, i, _ in sp if k == "reg-end"]
    if not reg:
        return False
    r0, r1 = reg[0], (reg_end[0] if reg_end else len(sp))
    ends = {ref: i for k, i, ref in sp if k == "post-end"}
    for k, i, _ in sp:
        if k == "post":
            e = ends.get(i, len(sp))
            if i < r1 and e > r0:
                return True
    return False


def judge(variant, choices, obs, outcome, part):
    case = {"variant": variant, "choices": choices}
    if outcome["abort"] and outcome["abort"][0] == "divergence":
        raise RuntimeError("replay divergence " + str(outcome["abort"]))
    if outcome["crash"]:
        part.violation(f"C18|harness-thread-raised|{outcome['crash'][0]}", f"{variant}: {outcome['crash'][:2]}", case)
        return "crash"
    if outcome["abort"]:
        part.violation(f"C18|no-termination|{outcome['abort'][0]}", f"{variant}: {outcome['abort'][1]}", case)
        return "abort"
    if outcome["thread_errors"]:
        part.violation(f"C18|thread-raised|{outcome['thread_errors'][0][1]}", f"{variant}: {outcome['thread_errors']}", case)
        return "thread-error"
    handled = [h[1] for h in obs["handled"]]
    verdicts = []
    # exactly once (every message whose post returned before clean_shutdown() was called)
    for mid in obs["before_shutdown"]:
        n = handled.count(tuple(mid))
        if n != 1:
            late = VARIANTS[variant]["late"]
            race = late and registration_overlaps_a_post(obs)
            key = ("C18|lost|" + ("registration-race" if race else ("parked-before-registration" if late else "shutdown-window"))) if n == 0 else f"C18|duplicated|{'late' if late else 'registered'}"
            part.violation(
                key,
                f"{variant}: message {mid} (post returned before clean_shutdown) was handled {n} times; handled={handled}", case)
            verdicts.append("count")
    # FIFO per sender among same-type messages
    for pid in {m[0] for m in handled}:
        for ty in {m[2] for m in handled if m[0] == pid}:
            seq = [m[1] for m in handled if m[0] == pid and m[2] == ty]
            if seq != sorted(seq):
                part.violation(f"C18|sender-fifo-broken|{('registration-race' if registration_overlaps_a_post(obs) else 'parked-before-registration') if VARIANTS[variant]['late'] else 'registered'}", f"{variant}: sender {pid} type {ty} handled in order {seq}; handled={handled}", case)
                verdicts.append("fifo")
    # priority: when m is handed over, no message whose post had already returned at the previous hand-over (so it was
    # certainly queued before this dequeue) and that is still unhandled has a strictly lower type
    done = set()
    prev_returned = ()
    for sender, mid, nret, returned in obs["handled"]:
        for other in prev_returned:
            if tuple(other) not in done and tuple(other) != tuple(mid) and other[2] < mid[2] and not VARIANTS[variant]["late"]:
                part.violation("C18|priority-inversion", f"{variant}: {mid} handled while {other} (lower type, fully posted earlier) was waiting; handled={handled}", case)
                verdicts.append("prio")
        done.add(tuple(mid))
        prev_returned = returned
    return "ok" if not verdicts else ",".join(sorted(set(verdicts)))


def run_variant(args):
    variant, bound, lo, hi, report_root = args
    part = Part()
    undo = thrx.install()
    try:
        with rt_common.sandbox():
            def on_exec(choices, sched, result, outcome):
                if not report_root and not any(choices):
                    return  # the default execution is reported by the first shard only
                v = judge(variant, choices, result, outcome, part)
                part.count("evaluations")
                part.count("traces")
                part.count("transitions", outcome["points"])
                part.maxi("points", outcome["points"])
                part.outcome((variant, v, result and tuple(h[1] for h in result["handled"])))
                if any(choices):
                    part.nontriv((variant, tuple(choices)))
                if part.counters["evaluations"] == 3:
                    part.sample({"variant": variant, "choices": choices[:80], "handled": result and [h[1] for h in result["handled"]], "points": outcome["points"]}, cap=1)

            ex, nodes = thrx.explore(scenario_for(variant), bound, on_exec, first_dev_range=(lo, hi), horizon=30.0, trace_lines=TRACE)
            part.count("states", nodes + (1 if report_root else 0))
    finally:
        thrx.uninstall(undo)
    return part


def default_length(variant):
    undo = thrx.install()
    try:
        with rt_common.sandbox():
            sched, result, outcome = thrx.execute(scenario_for(variant), [], horizon=30.0, trace_lines=TRACE)
    finally:
        thrx.uninstall(undo)
    return len(sched.taken)


def run(ctx):
    ctx.level = "model_checking"
    small = ("local-same-type", "local-mixed", "shutdown-race")
    bounds = {v: ((2 if v in small else 1) if ctx.quick else (3 if v in small else 2)) for v in VARIANTS}
    bound = bounds
    items = []
    for variant in VARIANTS:
        b = bounds[variant]
        n = default_length(variant)
        nshards = 24 if ctx.quick else 48
        step = max(1, -(-n // nshards))
        for k, lo in enumerate(range(0, n, step)):
            items.append((variant, b, lo, min(n, lo + step), k == 0))
    ctx.rule = (
        f"stateless deviation-bounded exploration (fair default schedule + every schedule with <= b deviations, b per variant = {bound}) of a real Agent "
        "loop thread + Messaging + InProcessCommunicationLayer with concurrent poster threads, scheduling points at synchronisation "
        "operations AND at every line of Messaging.post_msg/next_msg/_on_computation_registration/shutdown and Agent._run/clean_shutdown; "
        f"variants {sorted(VARIANTS)} (local/remote routes, priority mixes over types 5/10/20, registration after the posts, a post right "
        "before clean_shutdown). Oracle per execution: every message whose post returned before clean_shutdown() is handled exactly once; "
        "same-type messages of one sender in posting order; no hand-over while a fully posted lower-type message waits; the loop thread "
        "exits. states = schedule-tree nodes, traces = executions, transitions = scheduling points; non-trivial = >= 1 deviation"
    )
    ctx.assumptions = [
        "Preemption is explored at synchronisation operations and at line boundaries of the traced functions only; bytecode-level atomicity of single statements is assumed.",
        "Late registration is performed by a dedicated thread through the public Agent.add_computation API.",
    ]
    ctx.pmap(run_variant, items)


def replay(case):
    variant, choices = case["variant"], case["choices"]
    undo = thrx.install()
    part = Part()
    try:
        with rt_common.sandbox():
            outs = []
            for _ in range(2):
                sched, result, outcome = thrx.execute(scenario_for(variant), choices, horizon=30.0, trace_lines=TRACE)
                outs.append((result and [h[1] for h in result["handled"]], outcome["abort"], outcome["points"]))
            v = judge(variant, choices, result, outcome, part)
    finally:
        thrx.uninstall(undo)
    if repr(outs[0]) != repr(outs[1]):
        raise RuntimeError(f"replay is not deterministic: {outs}")
    print("handled:", outs[0][0], "abort:", outs[0][1])
    print("verdict:", v)
    for x in part.violations:
        print(x["what"])
    return v != "ok"
