"""C24 Optimal (ILP) distribution methods return cost-minimal distributions.

Bounded-exhaustive enumeration (E2) of tiny distribution problems: a tiny DCOP (real DCOP / Variable /
NAryMatrixRelation objects) is turned into a computation graph by the real builders (constraints hyper-graph for
oilp_cgdp, factor graph for ilp_fgdp), a handful of real AgentDef objects carry capacities, hosting costs and routes,
and two dict look-ups play computation_memory / communication_load.  The real `distribute(...)` is called and the
cost of what it returns -- measured by the method's own `distribution_cost` -- is compared with the minimum of the same
function over ALL |A|^|C| mappings that satisfy the method's hard rules (a 15-line filter over the specification,
never over pyDCOP objects).  The method must raise ImpossibleDistributionException iff no mapping passes the filter.

The sandbox has no `glpsol`: the name GLPK_CMD of the two modules is rebound, from here, to a class that accepts
GLPK_CMD's arguments and runs PuLP's bundled CBC instead (trusted base, see run()).
"""
import itertools
import json

from vf.core.runner import Part

TOL = 1e-6
NSHARDS = 64
METHODS = ("oilp_cgdp", "ilp_fgdp")

# ------------------------------------------------------------------------------------------ problem shapes
# name -> (variables, constraints (name, scope)).  Constraint names never collide with variable names.
SHAPES = {
    "s1": (["v1"], []),
    "u1": (["v1"], [("c1", ["v1"])]),
    "u3": (["v1"], [("c1", ["v1"]), ("d1", ["v1"]), ("e1", ["v1"])]),
    "e2": (["v1", "v2"], [("c12", ["v1", "v2"])]),
    "p2": (["v1", "v2"], [("c12", ["v1", "v2"]), ("d12", ["v1", "v2"])]),
    "e2u": (["v1", "v2"], [("c12", ["v1", "v2"]), ("c1", ["v1"])]),
    "uu2": (["v1", "v2"], [("c1", ["v1"]), ("c2", ["v2"])]),
    "e2i": (["v1", "v2", "v3"], [("c12", ["v1", "v2"])]),
    "ch3": (["v1", "v2", "v3"], [("c12", ["v1", "v2"]), ("c23", ["v2", "v3"])]),
    "pc3": (["v1", "v2", "v3"], [("c12", ["v1", "v2"]), ("d12", ["v1", "v2"]), ("c23", ["v2", "v3"])]),
    "tri3": (["v1", "v2", "v3"], [("c12", ["v1", "v2"]), ("c23", ["v2", "v3"]), ("c13", ["v1", "v3"])]),
    "h3": (["v1", "v2", "v3"], [("c123", ["v1", "v2", "v3"])]),
    "hb3": (["v1", "v2", "v3"], [("c123", ["v1", "v2", "v3"]), ("c23", ["v2", "v3"])]),
    "st4": (["v1", "v2", "v3", "v4"], [("c12", ["v1", "v2"]), ("c13", ["v1", "v3"]), ("c14", ["v1", "v4"])]),
    "ch4": (["v1", "v2", "v3", "v4"], [("c12", ["v1", "v2"]), ("c23", ["v2", "v3"]), ("c34", ["v3", "v4"])]),
    "cy4": (["v1", "v2", "v3", "v4"],
            [("c12", ["v1", "v2"]), ("c23", ["v2", "v3"]), ("c34", ["v3", "v4"]), ("c14", ["v1", "v4"])]),
    "pc4": (["v1", "v2", "v3", "v4"],
            [("c12", ["v1", "v2"]), ("d12", ["v1", "v2"]), ("c23", ["v2", "v3"]), ("c34", ["v3", "v4"])]),
    "h3e4": (["v1", "v2", "v3", "v4"], [("c123", ["v1", "v2", "v3"]), ("c34", ["v3", "v4"])]),
    "h4": (["v1", "v2", "v3", "v4"], [("c1234", ["v1", "v2", "v3", "v4"])]),
    "ch5": (["v1", "v2", "v3", "v4", "v5"],
            [("c12", ["v1", "v2"]), ("c23", ["v2", "v3"]), ("c34", ["v3", "v4"]), ("c45", ["v4", "v5"])]),
    "st5": (["v1", "v2", "v3", "v4", "v5"],
            [("c12", ["v1", "v2"]), ("c13", ["v1", "v3"]), ("c14", ["v1", "v4"]), ("c15", ["v1", "v5"])]),
    "hh5": (["v1", "v2", "v3", "v4", "v5"], [("c123", ["v1", "v2", "v3"]), ("c345", ["v3", "v4", "v5"])]),
    "pc5": (["v1", "v2", "v3", "v4", "v5"],
            [("c12", ["v1", "v2"]), ("d12", ["v1", "v2"]), ("c23", ["v2", "v3"]), ("c34", ["v3", "v4"]),
             ("c45", ["v4", "v5"])]),
}


def computations(method, shape):
    """Computation names in node order, and the links as (sorted tuple of computation names), one per link."""
    variables, cons = SHAPES[shape]
    if method == "oilp_cgdp":
        return list(variables), [tuple(sorted(sc)) for _, sc in cons]
    return list(variables) + [c for c, _ in cons], [tuple(sorted((c, v))) for c, sc in cons for v in sc]


def link_pairs(links):
    """{unordered pair of computations: number of links holding both}."""
    mult = {}
    for l in links:
        for p in itertools.combinations(l, 2):
            mult[p] = mult.get(p, 0) + 1
    return mult


# --------------------------------------------------------------------------------- parameter profiles (menus)
# Values come from the DESIGN menus: footprints {1,2}, capacities {2,3,10}, hosting {0,1,4}, routes {1,2,5},
# message loads {1,3}.  The first profile of every dimension is the plain base.
def foot_profile(pid, comps):
    if pid == "F1":
        return {c: 1 for c in comps}
    if pid == "F2first":
        return {c: 2 if i == 0 else 1 for i, c in enumerate(comps)}
    if pid == "F2last":
        return {c: 2 if i == len(comps) - 1 else 1 for i, c in enumerate(comps)}
    if pid == "F2all":
        return {c: 2 for c in comps}
    raise KeyError(pid)


def cap_profile(pid, agents):
    if pid == "C10":
        return {a: 10 for a in agents}
    if pid == "C2":
        return {a: 2 for a in agents}
    if pid == "C3":
        return {a: 3 for a in agents}
    if pid == "C2first":
        return {a: 2 if i == 0 else 10 for i, a in enumerate(agents)}
    if pid == "C2rest":
        return {a: 10 if i == 0 else 2 for i, a in enumerate(agents)}
    raise KeyError(pid)


def host_profile(pid, agents, comps):
    """-> {agent: (default hosting cost or None for 'argument not given', {computation: cost})}."""
    last_a, last_c = len(agents) - 1, len(comps) - 1
    mid_c = min(1, last_c)
    out = {a: (1, {}) for a in agents}
    if pid == "H1":
        return out
    if pid == "H4first":
        out[agents[0]] = (4, {})
        return out
    if pid == "H4last":
        out[agents[last_a]] = (4, {})
        return out
    if pid == "Hzero":  # AgentDef's documented default: hosting cost 0 for everything
        return {a: (None, {}) for a in agents}
    if pid == "Hdouble":  # the first computation costs 0 on the first and on the last agent
        out[agents[0]] = (1, {comps[0]: 0})
        out[agents[last_a]] = (1, {comps[0]: 0})
        return out
    if pid == "Halt":
        return {a: (1, {c: 4 for i, c in enumerate(comps) if (i + j) % 2 == 0}) for j, a in enumerate(agents)}
    if pid == "Hpin2":  # first computation pinned on the first agent, last computation on the last agent
        out[agents[0]] = (4, {comps[0]: 0})
        d, h = out[agents[last_a]]
        h = dict(h)
        h[comps[last_c]] = 0
        out[agents[last_a]] = (4, h)
        return out
    if pid.startswith("Hpin"):  # Hpin<c><a><x>: computation c in f/m/l pinned on agent a in f/l, others cost x there
        ci = {"f": 0, "m": mid_c, "l": last_c}[pid[4]]
        ai = {"f": 0, "l": last_a}[pid[5]]
        out[agents[ai]] = (int(pid[6]), {comps[ci]: 0})
        return out
    raise KeyError(pid)


def route_profile(pid, agents):
    """-> (default route, {agent: {other: cost}}) ; always symmetric."""
    routes = {a: {} for a in agents}

    def put(i, j, cost):
        if i < len(agents) and j < len(agents) and i != j:
            routes[agents[i]][agents[j]] = cost
            routes[agents[j]][agents[i]] = cost

    if pid == "R1":
        return 1, routes
    if pid == "R2":
        return 2, routes
    if pid == "R5first":
        put(0, 1, 5)
        return 1, routes
    if pid == "Rmix":
        put(0, 1, 2)
        put(0, 2, 5)
        return 1, routes
    if pid == "Rasym":
        # declared by one end only: route(a0, a1) = 6, route(a1, a0) = default 1. Which direction a method prices is its own
        # business, but its objective and its distribution_cost() must price the same one (the verdict compares the returned
        # mapping with every other mapping under the method's own distribution_cost)
        if len(agents) > 1:
            routes[agents[0]][agents[1]] = 6
        return 1, routes
    raise KeyError(pid)


def load_profile(pid, pairs):
    pairs = sorted(pairs)
    if pid == "L1":
        return {p: 1 for p in pairs}
    if pid == "L3all":
        return {p: 3 for p in pairs}
    if pid == "L3first":
        return {p: 3 if i == 0 else 1 for i, p in enumerate(pairs)}
    if pid == "L3last":
        return {p: 3 if i == len(pairs) - 1 else 1 for i, p in enumerate(pairs)}
    raise KeyError(pid)


DIMS = ("foot", "cap", "host", "route", "load")
BASE = {"foot": "F1", "cap": "C10", "host": "H1", "route": "R1", "load": "L1"}
MENU_SMALL = {
    "foot": ["F2first"],
    "cap": ["C2"],
    # the four Hpin..4 profiles pin either end of the first/last link on either agent: pyDCOP reads a link's ends
    # from a frozenset, so which (computation, agent) orientation a shortcut sees depends on PYTHONHASHSEED
    "host": ["H4first", "Halt", "Hpinff4", "Hpinfl4", "Hpinlf4", "Hpinll4", "Hzero"],
    "route": ["R5first", "Rasym"],
    "load": ["L3last"],
}
MENU_FULL = {
    "foot": ["F2first", "F2last", "F2all"],
    "cap": ["C2", "C3", "C2first", "C2rest"],
    "host": ["H4first", "H4last", "Halt", "Hpinff4", "Hpinfl4", "Hpinlf4", "Hpinll4", "Hpinmf4", "Hpinml4",
             "Hpinfl1", "Hpinlf1", "Hpin2", "Hzero", "Hdouble"],
    "route": ["R5first", "R2", "Rmix", "Rasym"],
    "load": ["L3last", "L3first", "L3all"],
}

# a block = (method, [shapes], [agent counts], menu, k): every combination that leaves the base in at most k
# of the five dimensions, for every shape and agent count of the block
PLAN_QUICK = [
    ("oilp_cgdp", ["s1"], [1], MENU_SMALL, 1),
    ("oilp_cgdp", ["e2", "pc3"], [2], MENU_SMALL, 2),
    ("oilp_cgdp", ["st4"], [3], MENU_SMALL, 2),
    ("ilp_fgdp", ["s1"], [1], MENU_SMALL, 1),
    ("ilp_fgdp", ["e2", "e2u"], [2], MENU_SMALL, 2),
    ("ilp_fgdp", ["h3"], [3], MENU_SMALL, 2),
]
OILP_ALL = ["s1", "u1", "e2", "p2", "e2u", "e2i", "ch3", "pc3", "tri3", "h3", "hb3", "st4", "ch4", "cy4", "pc4",
            "h3e4", "h4", "ch5", "st5", "hh5", "pc5"]
FGDP_ALL = ["s1", "u1", "u3", "e2", "p2", "e2u", "uu2", "e2i", "ch3", "h3", "hb3", "h4"]  # <= 5 computations
PLAN_THOROUGH = [
    ("oilp_cgdp", ["s1", "e2", "pc3"], [1], MENU_FULL, 1),
    ("ilp_fgdp", ["s1", "u1", "e2"], [1], MENU_FULL, 1),
    ("oilp_cgdp", OILP_ALL, [2, 3], MENU_FULL, 1),
    ("ilp_fgdp", FGDP_ALL, [2, 3], MENU_FULL, 1),
    ("oilp_cgdp", ["e2", "pc3"], [2, 3], MENU_FULL, 2),
    ("oilp_cgdp", ["hb3"], [2], MENU_FULL, 2),
    ("oilp_cgdp", ["st4"], [3], MENU_FULL, 2),
    ("ilp_fgdp", ["e2"], [2, 3], MENU_FULL, 2),
    ("ilp_fgdp", ["u1", "e2u"], [2], MENU_FULL, 2),
    ("ilp_fgdp", ["h3", "ch3"], [3], MENU_FULL, 2),
    ("oilp_cgdp", ["e2", "pc3"], [2, 3], MENU_SMALL, 3),
    ("ilp_fgdp", ["e2", "e2u"], [2, 3], MENU_SMALL, 3),
]


def make_instance(method, shape, n_agents, choice):
    comps, links = computations(method, shape)
    agents = ["a%d" % (i + 1) for i in range(n_agents)]
    caps = cap_profile(choice["cap"], agents)
    hosts = host_profile(choice["host"], agents, comps)
    default_route, routes = route_profile(choice["route"], agents)
    loads = load_profile(choice["load"], link_pairs(links))
    return {
        "method": method,
        "shape": shape,
        "agents": [
            {"name": a, "capacity": caps[a], "default_hosting": hosts[a][0], "hosting": dict(hosts[a][1]),
             "default_route": default_route, "routes": dict(routes[a])}
            for a in agents
        ],
        "foot": foot_profile(choice["foot"], comps),
        "load": {"|".join(p): v for p, v in loads.items()},
    }


def instances(plan):
    """All instances of the plan, simplest first inside a block, without duplicates: (key, choice, instance)."""
    seen = set()
    for method, shapes, counts, menu, k in plan:
        for shape in shapes:
            for n_agents in counts:
                for r in range(k + 1):
                    for dims in itertools.combinations(DIMS, r):
                        for alt in itertools.product(*[menu[d] for d in dims]):
                            choice = dict(BASE)
                            choice.update(zip(dims, alt))
                            inst = make_instance(method, shape, n_agents, choice)
                            key = json.dumps(inst, sort_keys=True)
                            if key in seen:
                                continue
                            seen.add(key)
                            yield key, choice, inst


# ------------------------------------------------------------------------------------------ the solver shim
_SHIM = {}


def install_solver_shim():
    """GLPK_CMD (no glpsol binary here) -> same constructor arguments, solved by PuLP's bundled CBC."""
    import pulp
    import pydcop.distribution.ilp_fgdp as ilp_fgdp
    import pydcop.distribution.oilp_cgdp as oilp_cgdp

    if "cls" not in _SHIM:
        class GlpkArgsCbcSolver(pulp.PULP_CBC_CMD):
            def __init__(self, path=None, keepFiles=False, mip=True, msg=True, options=None, timeLimit=None):
                options = list(options or [])
                if "--tmlim" in options:
                    timeLimit = float(options[options.index("--tmlim") + 1])
                super().__init__(mip=bool(mip), msg=False, timeLimit=timeLimit, threads=1)

        _SHIM["cls"] = GlpkArgsCbcSolver
    oilp_cgdp.GLPK_CMD = _SHIM["cls"]
    ilp_fgdp.GLPK_CMD = _SHIM["cls"]
    return {"oilp_cgdp": oilp_cgdp, "ilp_fgdp": ilp_fgdp}


# ----------------------------------------------------------------------------- building the real objects
def build(inst):
    from pydcop.dcop.dcop import DCOP
    from pydcop.dcop.objects import AgentDef, Domain, Variable
    from pydcop.dcop.relations import NAryMatrixRelation
    from pydcop.computations_graph import constraints_hypergraph, factor_graph

    variables, cons = SHAPES[inst["shape"]]
    dom = Domain("d", "level", [0, 1])
    dcop = DCOP("c24")
    vs = {}
    for v in variables:
        vs[v] = Variable(v, dom)
        dcop.add_variable(vs[v])
    for cname, scope in cons:
        dcop.add_constraint(NAryMatrixRelation([vs[v] for v in scope], name=cname))
    builder = constraints_hypergraph if inst["method"] == "oilp_cgdp" else factor_graph
    cg = builder.build_computation_graph(dcop)
    comps, links = computations(inst["method"], inst["shape"])
    if sorted(cg.node_names()) != sorted(comps) or sorted(tuple(sorted(l.nodes)) for l in cg.links) != sorted(links):
        raise AssertionError(f"harness: graph of {inst['shape']} built as {cg.node_names()} {list(cg.links)}")
    agents = []
    for a in inst["agents"]:
        kw = {"default_route": a["default_route"], "routes": dict(a["routes"]), "hosting_costs": dict(a["hosting"]),
              "capacity": a["capacity"]}
        if a["default_hosting"] is not None:
            kw["default_hosting_cost"] = a["default_hosting"]
        agents.append(AgentDef(a["name"], **kw))
    foot, load = inst["foot"], inst["load"]

    def computation_memory(node):
        return foot[node.name]

    def communication_load(node, target):
        return load["|".join(sorted((node.name, target)))]

    return cg, agents, computation_memory, communication_load


# ---------------------------------------------------------------------------------------- reference model
def hosting_cost(agent, comp):
    if comp in agent["hosting"]:
        return agent["hosting"][comp]
    return 0 if agent["default_hosting"] is None else agent["default_hosting"]


def broken_rule(inst, comps, where):
    """First hard rule of the method that the mapping {computation: agent index} breaks, or None."""
    agents = inst["agents"]
    for j, a in enumerate(agents):
        if sum(inst["foot"][c] for c in comps if where[c] == j) > a["capacity"]:
            return "capacity"
    for j, a in enumerate(agents):
        for c in comps:
            if hosting_cost(a, c) == 0 and where[c] != j:
                return "zero-cost-pin"
    if inst["method"] == "ilp_fgdp":
        for j in range(len(agents)):
            if j not in where.values():
                return "idle-agent"
    return None


def features(inst):
    comps, links = computations(inst["method"], inst["shape"])
    zero = {c: [a["name"] for a in inst["agents"] if hosting_cost(a, c) == 0] for c in comps}
    pinned = {c for c in comps if zero[c]}
    pairs = link_pairs(links)
    return {
        "two_zero": any(len(z) >= 2 for z in zero.values()),
        "pinned": bool(pinned),
        "pinned_neighbour": any((p[0] in pinned) != (p[1] in pinned) for p in pairs),
        "parallel": any(m >= 2 for m in pairs.values()),
        "links": len(links),
    }


def suspect_cost(inst, comps, where, once, flips):
    """Diagnostic only -- names the root cause in the violation key, never decides a verdict.  oilp_cgdp's documented
    cost (0.8 * sum route*load + 0.2 * sum hosting) with two possible deviations of an objective function:
    once : a pair of computations held by m links weighs m*load (counted once, load summed over the common links)
           instead of distribution_cost's m*m*load (counted once per link, each time with the summed load);
    flips: per linked pair an orientation (c1, c2); the term 'c1 on a later agent than c2' is dropped when c1 or
           c2 is pinned there by a zero hosting cost.  None = nothing dropped."""
    _, links = computations(inst["method"], inst["shape"])
    agents = inst["agents"]
    comm = 0
    for k, (pair, m) in enumerate(sorted(link_pairs(links).items())):
        c1, c2 = pair[::-1] if flips and flips[k] else pair
        j1, j2 = where[c1], where[c2]
        if j1 == j2:
            continue
        if flips is not None and j1 > j2 and 0 in (hosting_cost(agents[j1], c1), hosting_cost(agents[j2], c2)):
            continue
        route = agents[j1]["routes"].get(agents[j2]["name"], agents[j1]["default_route"])
        comm += route * (m if once else m * m) * inst["load"]["|".join(pair)]
    host = sum(hosting_cost(agents[where[c]], c) for c in comps)
    return 0.8 * comm + 0.2 * host


def diagnose(inst, comps, where, feasible):
    """Which suspected deviation of the objective makes the returned mapping optimal (smallest explanation first)."""
    feat = features(inst)
    _, links = computations(inst["method"], inst["shape"])
    n_pairs = len(link_pairs(links))

    def optimal(once, flips):
        best = min(suspect_cost(inst, comps, w, once, flips) for _, w in feasible)
        return abs(suspect_cost(inst, comps, where, once, flips) - best) <= TOL

    orientations = list(itertools.product((0, 1), repeat=n_pairs)) if feat["pinned_neighbour"] else []
    if feat["parallel"] and optimal(True, None):
        return "pair-of-computations-in-several-links"
    if any(optimal(False, o) for o in orientations):
        return "term-of-zero-cost-pinned-computation-missing"
    if feat["parallel"] and any(optimal(True, o) for o in orientations):
        return "pinned-term-missing+pair-in-several-links"
    return "plain"


def evaluate(inst):
    """-> (observation dict, list of (key, sentence))."""
    from pydcop.distribution.objects import Distribution, ImpossibleDistributionException

    mod = install_solver_shim()[inst["method"]]
    method = inst["method"]
    cg, agents, mem, load = build(inst)
    comps = cg.node_names()
    names = [a["name"] for a in inst["agents"]]

    def as_distribution(where):
        return Distribution({a: [c for c in comps if where[c] == j] for j, a in enumerate(names)})

    def cost_of(where):
        return mod.distribution_cost(as_distribution(where), cg, agents, mem, load)[0]

    feasible = []
    rejected = {}
    for assign in itertools.product(range(len(names)), repeat=len(comps)):
        where = dict(zip(comps, assign))
        rule = broken_rule(inst, comps, where)
        if rule is None:
            feasible.append((cost_of(where), where))
        else:
            rejected[rule] = rejected.get(rule, 0) + 1
    best = min(c for c, _ in feasible) if feasible else None
    obs = {
        "mappings": len(names) ** len(comps),
        "feasible": len(feasible),
        "rejected": rejected,
        "distinct_costs": len({round(c, 6) for c, _ in feasible}),
        "optimum": best,
    }
    feat = features(inst)
    flaws = []
    try:
        dist = mod.distribute(cg, agents, hints=None, computation_memory=mem, communication_load=load)
    except ImpossibleDistributionException as e:
        obs["status"] = "impossible"
        if feasible:
            tag = "zero-cost-pins" if feat["pinned"] else "no-pin"
            flaws.append((f"{method}|impossible-although-feasible|{tag}",
                          f"raised ImpossibleDistributionException({e}) although {len(feasible)} mappings satisfy the "
                          f"hard rules, e.g. {show(feasible[0][1], names)} of cost {feasible[0][0]}"))
        return obs, flaws
    except Exception as e:  # noqa -- any other exception prevents the stated result
        obs["status"] = "raised " + type(e).__name__
        tag = ("computation-with-zero-cost-on-two-agents" if feat["two_zero"]
               else "graph-without-link" if not feat["links"] else "other")
        exp = f"a distribution of cost {best}" if feasible else "ImpossibleDistributionException (no mapping satisfies the hard rules)"
        flaws.append((f"{method}|raised-{type(e).__name__}|{tag}",
                      f"distribute raised {type(e).__name__}({e}) instead of {exp}"))
        return obs, flaws

    obs["status"] = "distribution"
    try:
        hosted = sorted(dist.computations)
        where = {c: names.index(dist.agent_for(c)) for c in comps}
    except (KeyError, ValueError) as e:
        flaws.append((f"{method}|invalid-result|{type(e).__name__}",
                      f"returned {dist} which does not host every computation of {comps} on a declared agent ({e})"))
        return obs, flaws
    if hosted != sorted(comps):
        flaws.append((f"{method}|invalid-result|computations",
                      f"returned {dist} whose computations {hosted} are not exactly {sorted(comps)}"))
        return obs, flaws
    obs["result"] = show(where, names)
    got = mod.distribution_cost(dist, cg, agents, mem, load)[0]
    obs["cost"] = got
    rule = broken_rule(inst, comps, where)
    if rule is not None:
        kind = "returned-although-infeasible" if not feasible else "result-breaks-hard-rule"
        exp = ("ImpossibleDistributionException (no mapping satisfies the hard rules)" if not feasible
               else f"e.g. {show(min(feasible, key=lambda f: f[0])[1], names)} of cost {best}")
        flaws.append((f"{method}|{kind}|rule={rule}",
                      f"returned {show(where, names)} which breaks the hard rule '{rule}'; expected {exp}"))
        return obs, flaws
    if abs(got - best) > TOL:
        cause = diagnose(inst, comps, where, feasible) if method == "oilp_cgdp" else "plain"
        opt = min(feasible, key=lambda f: f[0])[1]
        flaws.append((f"{method}|non-minimal|{cause}",
                      f"returned {show(where, names)} of distribution_cost {got}, but {show(opt, names)} satisfies the "
                      f"hard rules and costs {best}"))
    return obs, flaws


def show(where, names):
    return {a: [c for c in where if where[c] == j] for j, a in enumerate(names)}


def describe(inst):
    ag = "; ".join(
        f"{a['name']}(capacity={a['capacity']}, hosting default "
        f"{'unset(0)' if a['default_hosting'] is None else a['default_hosting']} {a['hosting']}, "
        f"routes default {a['default_route']} {a['routes']})" for a in inst["agents"])
    variables, cons = SHAPES[inst["shape"]]
    return (f"{inst['method']} on DCOP variables {variables} constraints {[(c, s) for c, s in cons]}, agents {ag}, "
            f"footprints {inst['foot']}, loads {inst['load']}")


def is_nontrivial(obs):
    """The minimisation has something to decide: >= 2 mappings pass the hard rules and they do not all cost the same."""
    return obs["feasible"] >= 2 and obs["distinct_costs"] >= 2


# ------------------------------------------------------------------------------------------------- driver
def shard(args):
    idx, n, tier, rot = args
    plan = PLAN_QUICK if tier == "quick" else PLAN_THOROUGH
    part = Part()
    for i, (key, choice, inst) in enumerate(instances(plan)):
        if (i + rot) % n != idx:
            continue
        obs, flaws = evaluate(inst)
        part.count("evaluations")
        part.count("instances_" + inst["method"])
        part.count("mappings_enumerated", obs["mappings"])
        part.maxi("computations", len(inst["foot"]))
        part.maxi("mappings_per_instance", obs["mappings"])
        if obs["feasible"] == 0:
            part.count("instances_without_feasible_mapping")
        for rule in obs["rejected"]:
            part.count("instances_where_rule_excludes_mappings:" + rule)
        if is_nontrivial(obs):
            part.nontriv(key)
        # expected result (equal to the observed one whenever the property holds) + the verdict
        expected = "impossible" if obs["feasible"] == 0 else "cost %.6f" % obs["optimum"]
        part.outcome((inst["method"], expected))
        for fkey, what in flaws:
            part.outcome(("flaw", fkey))
            part.violation(fkey, describe(inst) + ": " + what, inst)
        if i in (7, 60, 150):
            part.sample({"instance": inst, "profiles": choice, "observed": obs})
    return part


def run(ctx):
    ctx.level = "exploration"
    plan = PLAN_QUICK if ctx.quick else PLAN_THOROUGH
    blocks = "; ".join(
        f"{m}: shapes {s} x {c} agents, <= {k} non-base dimensions of {'small' if menu is MENU_SMALL else 'full'} menu"
        for m, s, c, menu, k in plan)
    ctx.rule = (
        "Instances = tiny DCOP shape (real DCOP -> real constraints hyper-graph for oilp_cgdp / factor graph for "
        "ilp_fgdp, <= 4 computations quick, <= 5 thorough) x 1..3 AgentDef x one profile per dimension (footprints "
        "{1,2}, capacities {2,3,10}, hosting costs {0,1,4} incl. AgentDef's default 0, symmetric routes {1,2,5} plus one route declared by one end only (6 one way, default the other way), "
        "symmetric message loads {1,3}); per block ALL combinations leaving the base profile (footprint 1, capacity "
        "10, hosting 1, route 1, load 1) in at most k of the 5 dimensions are enumerated, duplicates removed: "
        + blocks + f". Small menu {MENU_SMALL}; full menu {MENU_FULL}. "
        "For each instance the real distribute() runs once and is compared with a brute force over all |A|^|C| "
        "mappings. Hard rules used by the reference -- both methods: every computation on exactly one agent; sum of "
        "footprints hosted by an agent <= its capacity; a computation whose hosting cost is 0 on an agent must be "
        "on that agent (so 0 on two agents = no feasible mapping); ilp_fgdp only: every agent hosts at least one "
        "computation. Cost = the method's own distribution_cost()[0] (oilp_cgdp: 0.8*sum route*load + 0.2*sum "
        "hosting; ilp_fgdp: sum of loads of links cut), tolerance 1e-6; ImpossibleDistributionException expected iff "
        "no mapping passes. Non-trivial = at least 2 mappings pass the hard rules and they do not all cost the same."
    )
    ctx.assumptions = [
        "No glpsol binary in the sandbox: the name GLPK_CMD in pydcop.distribution.oilp_cgdp and "
        "pydcop.distribution.ilp_fgdp is rebound by the check to a subclass of pulp.PULP_CBC_CMD that accepts "
        "GLPK_CMD's arguments (keepFiles, msg, options incl. --tmlim -> timeLimit) and solves with PuLP's bundled "
        "CBC (msg=False, threads=1); the model handed to the solver is pyDCOP's, unchanged.",
        "CBC solves the model it is given optimally and PuLP reports its status faithfully (infeasible -> "
        "LpStatusInfeasible); how GLPK itself reports infeasibility or time-outs is not exercised.",
        "Message loads are symmetric (load(c1,c2) == load(c2,c1)): both methods read a link's ends from a frozenset, so the "
        "direction they would query an asymmetric callable in is not defined. Routes are symmetric except in the profile Rasym, "
        "where only self-consistency is demanded (objective and distribution_cost price the same direction).",
        "AgentDef cost look-ups (hosting_cost, route, capacity attribute) are C31's subject; the reference reads "
        "the same tables from the instance specification.",
    ]
    rot = ctx.seed % NSHARDS
    ctx.pmap(shard, [(i, NSHARDS, ctx.tier, rot) for i in range(NSHARDS)])


def replay(case):
    print(describe(case))
    obs, flaws = evaluate(case)
    print("observed:", json.dumps(obs, sort_keys=True, default=repr))
    for key, what in flaws:
        print("FLAW", key, "::", what)
    return bool(flaws)
