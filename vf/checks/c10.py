"""C10 Every value an algorithm selects lies in the variable's domain (netx monitor on every algorithm).

Every shipped DCOP algorithm is run (real graph builder, real computations) on small instances with int and str domains,
with and without own costs, isolated variables included, with default parameters (noise, damping, random initial
values: every random draw is an explorer choice point). A monitor wraps VariableComputation.value_selection and also
looks at current_value after every step.
"""
import itertools

from vf.checks import ls_common
from vf.core import gen, netx
from vf.core.runner import Part

HORIZON = 3


class DomSpec(netx.Spec):
    def __init__(self, algo, spec, horizon):
        self.algo, self.spec, self.horizon = algo, spec, horizon
        self.calls = 0
        self.notes = set()

    def consuming(self, world, name):
        if world.tickn.get(name, 0) >= self.horizon + 1:  # periodic algorithms (A-DSA): tick horizon
            return False
        c = world.comps[name]
        cyc = getattr(c, "current_cycle", None)
        if not isinstance(cyc, int):
            cyc = getattr(c, "cycle_count", 0)
        return cyc < self.horizon

    def on_hook(self, world, name, kind, args):
        if kind == "value_selection":
            self.calls += 1
            comp = world.comps[name]
            val = args[0]
            if val is not None and val not in comp.variable.domain:
                world.mon.setdefault("bad", []).append((name, repr(val), "value_selection"))

    def canon_extra(self, world):
        return tuple(world.mon.get("bad", ()))

    def check_state(self, world, event, report):
        if world.exception is not None:
            ev, et, msg, where = world.exception
            self.notes.add(f"{self.algo}: handler raised {et} at {netx.site(where)}")
            return
        bad = list(world.mon.get("bad", ()))
        for n, c in world.comps.items():
            if hasattr(c, "variable") and hasattr(c, "current_value"):
                v = c.current_value
                if v is not None and v not in c.variable.domain:
                    bad.append((n, repr(v), "current_value"))
        if bad:
            n, v, how = bad[-1]
            dom = self.spec["vars"].get(n)
            kind = "cost-or-number-instead-of-value" if isinstance(_num(v), (int, float)) and dom and isinstance(dom[0], str) else "outside-domain"
            iso = "isolated" if not gen.neighbors(self.spec).get(n) else "connected"
            report(f"C10|{self.algo.split(':')[0]}|{kind}|{iso}", f"{self.algo} on {self.spec}: {n} selected {v} ({how}), domain {dom}")


def _num(s):
    try:
        return float(s)
    except (TypeError, ValueError):
        return s


GDBA_VARIANTS = [{"modifier": m, "violation": v, "increase_mode": i} for m in ("A", "M") for v in ("NZ", "NM", "MX") for i in ("E", "R", "C", "T")]


def algos(tier):
    q = tier == "quick"
    out = [("dpop", {}), ("syncbb", {}), ("mgm", {"stop_cycle": 3}), ("mgm2", {"stop_cycle": 2}), ("dsa", {"stop_cycle": 3}), ("dsa", {"stop_cycle": 3, "variant": "C"}),
           ("adsa", {}), ("dsatuto", {}), ("dba", {"max_distance": 2}), ("maxsum", {}), ("amaxsum", {}), ("amaxsum", {"start_messages": "leafs_vars"})]
    for i, g in enumerate(GDBA_VARIANTS):
        if not q or i % 5 == 0:
            out.append(("gdba", g))
    if not q:
        out += [("mixeddsa", {}), ("maxsum", {"damping": 0, "noise": 0}), ("mgm2", {"stop_cycle": 2, "favor": "coordinated"})]
    return out


def specs():
    B = gen.T3_BIN
    out = []
    for mode in ("min", "max"):
        for dom in ([0, 1], ["a", "b"], [5, 7, 9]):
            d = len(dom)
            t = B[2] if d == 2 else ls_common.T3x3
            for costs in (None, {"v0": [3, 0, 1][:d]}):
                s = {"vars": {"v0": list(dom), "v1": list(dom)}, "cons": [{"name": "c0", "scope": ["v0", "v1"], "table": t}], "mode": mode}
                if costs:
                    s["costs"] = costs
                out.append(s)
                # an isolated variable next to the pair
                s2 = {"vars": {"v0": list(dom), "v1": list(dom), "v2": list(dom)}, "cons": [{"name": "c0", "scope": ["v0", "v1"], "table": t}], "mode": mode}
                if costs:
                    s2["costs"] = {"v2": costs["v0"]}
                out.append(s2)
        out.append({"vars": {"v0": [0, 1], "v1": [0, 1], "v2": [0, 1]}, "cons": [{"name": "c0", "scope": ["v0", "v1"], "table": B[2]}, {"name": "c1", "scope": ["v1", "v2"], "table": B[0]}], "mode": mode})
        # neighbours with DISJOINT domains: a value meant for the neighbour is never a member of the own domain
        for t in (B[2], B[4], B[0]):
            out.append({"vars": {"v0": [0, 1], "v1": [10, 11]}, "cons": [{"name": "c0", "scope": ["v0", "v1"], "table": t}], "mode": mode})
        out.append({"vars": {"v0": [0, 1], "v1": ["a", "b"], "v2": [7, 8]}, "cons": [{"name": "c0", "scope": ["v0", "v1"], "table": B[2]}, {"name": "c1", "scope": ["v1", "v2"], "table": B[4]}], "mode": mode})
    return out


def hard(spec):
    """DBA / GDBA are CSP-flavoured: give them the same instance with the biggest entry turned into a hard cost."""
    s = dict(spec)
    s["cons"] = [dict(c, table=[[10000 if x == 5 else x for x in row] for row in c["table"]]) for c in spec["cons"]]
    return s


def explore(algo, params, spec, schedule, part):
    try:
        world, shared, _ = ls_common.build_world(spec, algo, params)
    except Exception as e:  # noqa: the algorithm cannot be built on this instance (e.g. max objective not supported)
        part.count("not_buildable")
        part.notes.append(f"{algo} {params}: not buildable on mode={spec['mode']}: {type(e).__name__} {str(e)[:80]}") if len(part.notes) < 40 else None
        return
    sp = DomSpec(f"{algo}:{sorted(params.items())}", spec, HORIZON)
    ex = netx.Explorer(sp, shared=shared, schedule=schedule, max_states=60000)

    def report(key, what, w, hist):
        part.violation(key, what, {"algo": algo, "params": params, "spec": spec, "schedule": schedule, "history": netx.unroll(hist)})

    import contextlib, io

    with contextlib.redirect_stdout(io.StringIO()):  # adsa prints while waiting
        st = ex.run(world, report)
    for k in ("states", "transitions", "traces", "choice_points"):
        part.count(k, st[k])
    part.count("evaluations")
    part.count("value_selection_calls_" + algo, sp.calls)
    if ex.capped:
        part.count("capped_" + algo)
    for n in sp.notes:
        if n not in part.notes and len(part.notes) < 40:
            part.notes.append(n)
    part.outcome((algo, repr(params), repr(spec), schedule, tuple(sorted(ex.end_digests))[:5]))
    if sp.calls:
        part.nontriv((algo, repr(params), repr(spec), schedule))
    if st["states"] > 50:
        part.sample({"algo": algo, "params": params, "spec": spec, "schedule": schedule, "states": st["states"], "value_selection_calls": sp.calls}, cap=1)


def shard(items):
    part = Part()
    for algo, params, spec, schedule in items:
        explore(algo, params, spec, schedule, part)
    return part


def run(ctx):
    ctx.level = "model_checking"
    jobs = []
    for algo, params in algos(ctx.tier):
        for spec in specs():
            s = hard(spec) if algo in ("dba", "gdba") else spec
            if algo in ("dba",) and s["mode"] == "max":
                continue
            small = len(s["vars"]) == 2 and len(s["vars"]["v0"]) == 2 and len(s["vars"]["v1"]) == 2
            for schedule in (("all",) if small else ("first", "last", "alt")):
                jobs.append((algo, params, s, schedule))
    ctx.rule = (
        "explicit-state search over a virtual per-channel-FIFO network of the real computations of EVERY shipped algorithm (dpop, syncbb, mgm, mgm2, "
        "dsa A/C, adsa with tick events, dsatuto, dba, gdba (quick: every 5th of its 24 variants, thorough all), maxsum and amaxsum with their "
        "default noise/damping, thorough also mixeddsa) with default parameters on pairs / pair+isolated variable / a 3-chain with int, str "
        f"and 3-valued domains, own costs on/off, min and max; horizon {HORIZON} cycles; 2-valued pairs under ALL interleavings, start orders and "
        "random answers, the others under 3 canonical schedules (random answers still all expanded, 60000-state cap per run). A monitor on "
        "VariableComputation.value_selection and on current_value after every step requires None or a domain member. The evidence lists the "
        "number of value_selection calls seen per algorithm (value_selection_calls_*); a zero count is a harness error"
    )
    ctx.assumptions = ["Network model: one FIFO channel per ordered pair; periodic actions (A-DSA) are explicit tick events.",
                       "Handler exceptions are not C10's subject: they end the path and are listed in the evidence notes."]
    n = 64
    jobs.sort(key=lambda j: (j[0], len(j[2]["vars"])))
    ctx.pmap(shard, [jobs[i::n] for i in range(n)])
    from vf.core.runner import HarnessError

    for algo in {a for a, _ in algos(ctx.tier)}:
        if not ctx.part.counters.get("value_selection_calls_" + algo):
            raise HarnessError(f"no value_selection call observed for {algo}: vacuous")
    capped = {k: v for k, v in ctx.part.counters.items() if k.startswith("capped_")}
    if capped:
        ctx.exhaustive = False
        ctx.rule += f" CAP hit: {capped}."


def replay(case):
    world, shared, _ = ls_common.build_world(case["spec"], case["algo"], case["params"])
    sp = DomSpec(case["algo"], case["spec"], HORIZON)
    found = []

    def observe(w, ev):
        print(ev, {n: getattr(c, "current_value", None) for n, c in w.comps.items()})
        sp.check_state(w, ev, lambda k, what: found.append((k, what)))

    netx.replay(world, sp, case["history"], observe)
    for k, what in found:
        print("FOUND", k, "::", what)
    return bool(found)
