"""C23 Distribution methods return valid mappings or declare impossibility.

Bounded-exhaustive enumeration (E2) of small distribution problems -- computation graphs of the four graph
models built by the real graph builders from small DCOPs, 1-4 agents, capacity / hosting-cost / route / hint
menus derived from the footprints of the instance -- handed to every distribution method shipped in
pydcop/distribution through its `distribute(...)` function, with the arguments `pydcop distribute` passes
(commands/distribute.py: graph, dcop.agents.values(), hints=, computation_memory=, communication_load=,
timeout=).  Every random draw of the heuristics (adhoc: shuffle / choice, heur_comhost and gh_cgdp: random()
tie-breakers) is an explorer-owned choice point: all answer vectors are enumerated (bounds in `ctx.rule`).

Oracle (reference model = 30 lines of set arithmetic in `judge`): the call returns a Distribution that hosts
every node of the graph exactly once, on declared agents only, honours the must-host hints (methods documented
as honouring hints) and keeps sum(footprint) <= capacity on every agent (methods documented as respecting
capacities) -- or it raises ImpossibleDistributionException / TimeoutError.  Anything else is a violation.

What the documentation of each method says decides what is demanded of it:
* capacity: oneagent says "Agent capacity is not considered"; every other module says it respects / uses the
  capacities as (hard) constraints.
* hints: only adhoc says it "honors so-called 'hints'"; oneagent, ilp_compref, ilp_compref_fg say hints are not
  used; the others accept the argument and say nothing (they pin computations through a hosting cost of 0
  instead): a must-host hint they do not honour is counted (`hint_not_honoured_silent`), not reported.
* the *_secp_* methods state assumptions on their input (actuator variables have a hosting cost of 0 on their own
  agent, factors named c_<variable>): they only get SECP-shaped problems.
* DPOP / NCBB declare `computation_memory` / `communication_load` not implemented: a NotImplementedError raised
  by these two functions is the outcome `unsupported`, not a violation (pseudo-trees are additionally
  distributed with the unit footprint / load that load_algorithm_module injects for algorithms defining none).
"""
import itertools
import os
import sys

from vf.core import choice
from vf.core.runner import Part

NSHARDS = 64
TIMEOUT = 3600  # what `pydcop distribute` passes when no --timeout is given
AGENTS = ["a0", "a1", "a2", "a3"]
ALGO_FOR_MODEL = {
    "constraints_hypergraph": "dsa",
    "factor_graph": "maxsum",
    "pseudotree": "dpop",
    "ordered_graph": "syncbb",
}
ALL_MODELS = ["constraints_hypergraph", "factor_graph", "ordered_graph", "pseudotree"]

# name -> (graph models, problem family, uses the ILP solver, capacity-aware per its documentation,
#          hints: "honoured" | "documented-unused" | "silent")
METHODS = {
    "oneagent": (ALL_MODELS, "any", False, False, "documented-unused"),
    "adhoc": (ALL_MODELS, "any", False, True, "honoured"),
    "heur_comhost": (ALL_MODELS, "any", False, True, "silent"),
    "gh_cgdp": (ALL_MODELS, "any", False, True, "silent"),
    "gh_secp_cgdp": (["constraints_hypergraph"], "secp", False, True, "silent"),
    "gh_secp_fgdp": (["factor_graph"], "secp", False, True, "silent"),
    "ilp_fgdp": (["factor_graph"], "any", True, True, "silent"),
    "ilp_compref": (ALL_MODELS, "any", True, True, "documented-unused"),
    "ilp_compref_fg": (["factor_graph"], "any", True, True, "documented-unused"),
    "oilp_cgdp": (ALL_MODELS, "any", True, True, "silent"),
    "oilp_secp_cgdp": (["constraints_hypergraph"], "secp", True, True, "silent"),
    "oilp_secp_fgdp": (["factor_graph"], "secp", True, True, "silent"),
}
# methods that place a computation on the agent where its hosting cost is 0 before anything else
PINNING = ["gh_cgdp", "gh_secp_cgdp", "gh_secp_fgdp", "ilp_fgdp", "oilp_cgdp", "oilp_secp_cgdp", "oilp_secp_fgdp"]
ILP_MODULES = ["ilp_fgdp", "ilp_compref", "ilp_compref_fg", "oilp_cgdp", "oilp_secp_cgdp", "oilp_secp_fgdp"]

# ------------------------------------------------------------------------------------------------ problems
# generic DCOP shapes: (number of variables, constraint scopes as variable indexes); simplest first
GENERIC_SHAPES = [
    (1, []),
    (1, [[0]]),
    (2, []),
    (2, [[0, 1]]),
    (2, [[0, 1], [0]]),
    (3, [[0, 1], [1, 2]]),
    (3, [[0, 1], [1, 2], [0, 2]]),
    (3, [[0, 1, 2]]),
    (3, [[0, 1]]),
    (4, [[0, 1], [1, 2], [2, 3]]),
    (4, [[0, 1], [0, 2], [0, 3]]),
    (4, [[0, 1], [2, 3]]),
    (4, [[0, 1, 2], [2, 3]]),
    (4, [[0, 1], [1, 2], [2, 3], [0, 3]]),
    (4, []),
]
DOMAIN_SIZES = [2, 3, 2, 2]  # footprints with and without ties (maxsum footprints depend on the domain sizes)

# SECP shapes: (number of lights, lights with a cost factor c_l<i>, models m<j> -> light indexes,
#               rules r<k> -> variable names)
SECP_SHAPES = [
    (1, [], [], []),
    (1, [], [[0]], []),
    (2, [], [[0, 1]], []),
    (2, [], [], [["l0", "l1"]]),
    (2, [], [[0]], []),
    (2, [0], [[0]], [["l1", "m0"]]),
    (3, [], [[0, 1], [1, 2]], [["m0", "m1"]]),
]


def _zeros(dims):
    if not dims:
        return 0
    return [_zeros(dims[1:]) for _ in range(dims[0])]


def generic_spec(shape):
    n, scopes = shape
    names = [f"v{i}" for i in range(n)]
    spec = {"vars": {v: list(range(DOMAIN_SIZES[i])) for i, v in enumerate(names)}, "cons": []}
    for k, sc in enumerate(scopes):
        spec["cons"].append({"name": f"c{k}", "scope": [names[i] for i in sc],
                             "table": _zeros([DOMAIN_SIZES[i] for i in sc])})
    return spec


def secp_spec(shape):
    nl, costs, models, rules = shape
    spec = {"vars": {f"l{i}": [0, 1] for i in range(nl)}, "cons": []}
    for j, _ in enumerate(models):
        spec["vars"][f"m{j}"] = [0, 1]
    for i in costs:
        spec["cons"].append({"name": f"c_l{i}", "scope": [f"l{i}"], "table": _zeros([2])})
    for j, lights in enumerate(models):
        scope = [f"l{i}" for i in lights] + [f"m{j}"]
        spec["cons"].append({"name": f"c_m{j}", "scope": scope, "table": _zeros([2] * len(scope))})
    for k, scope in enumerate(rules):
        spec["cons"].append({"name": f"r{k}", "scope": list(scope), "table": _zeros([2] * len(scope))})
    return spec


_GRAPHS = {}


def _unit(*args, **kwargs):
    return 1


def build_graph(family, shape, model, fp_kind):
    """Real DCOP -> real computation graph; footprint / load functions as `pydcop distribute --algo` takes them."""
    shape = _norm(shape)
    key = repr((family, shape, model, fp_kind))
    if key not in _GRAPHS:
        from importlib import import_module

        from pydcop.algorithms import load_algorithm_module
        from vf.core import gen

        spec = generic_spec(shape) if family == "generic" else secp_spec(shape)
        dcop, _ = gen.build_dcop(spec)
        cg = import_module("pydcop.computations_graph." + model).build_computation_graph(dcop)
        if fp_kind == "unit":
            memory, load = _unit, _unit
        else:
            algo = load_algorithm_module(ALGO_FOR_MODEL[model])
            memory, load = algo.computation_memory, algo.communication_load
        names = [n.name for n in cg.nodes]
        try:
            fps = {n.name: memory(n) for n in cg.nodes}
        except NotImplementedError:
            fps = None  # DPOP: declared not implemented
        _GRAPHS[key] = (cg, memory, load, names, fps)
    return _GRAPHS[key]


# ------------------------------------------------------------------------------------------------- menus
def capacity_vectors(fps, k, names_wanted):
    """Capacity profiles around the footprints of the instance (duplicates of an earlier vector are dropped)."""
    vals = list(fps.values())
    total, fmax = sum(vals), max(vals)
    menu = {
        "ample": [10 ** 4] * k,
        "sum": [total] * k,
        "fmax": [fmax] * k,
        "below": [fmax - 1] * k,
        "plus1": [fmax + 1] * k,
        "tight": [total / k] * k,  # a float from 2 agents on
        "bigfirst": [total] + [fmax - 1] * (k - 1),
        "biglast": [fmax - 1] * (k - 1) + [total],
        # an agent without any capacity next to agents with plenty (the hints "one" / "two" pin a computation on the last agent)
        "zerolast": [10 ** 4] * (k - 1) + [0],
        "zerofirst": [0] + [10 ** 4] * (k - 1),
    }
    seen, out = [], []
    for name in names_wanted:
        menu[name] = [max(0, c) for c in menu[name]]  # no negative capacities (0 = falsy representative)
        if menu[name] not in seen:
            seen.append(menu[name])
            out.append((name, menu[name]))
    return out


def hosting_profiles(nodes, k, wanted):
    out = []
    for name in wanted:
        agents = []
        for i in range(k):
            if name == "unset":  # AgentDef default: hosting cost 0 for everything
                kw = {}
            elif name == "d1":
                kw = {"default_hosting_cost": 1}
            elif name == "pin":  # agent i is the home (cost 0) of node i, everything else costs 5
                kw = {"default_hosting_cost": 5}
                if i < len(nodes):
                    kw["hosting_costs"] = {nodes[i]: 0}
            else:  # "costs": no zero anywhere
                kw = {"default_hosting_cost": 5,
                      "hosting_costs": {n: (i + j) % 3 + 1 for j, n in enumerate(nodes)}}
            agents.append(kw)
        out.append((name, agents))
    return out


def route_profiles(k, wanted):
    out = []
    for name in wanted:
        agents = []
        for i in range(k):
            if name == "unset":
                kw = {}
            else:  # "r3"
                kw = {"default_route": 3}
                if k >= 2 and i < 2:
                    kw["routes"] = {AGENTS[1 - i]: 1}
            agents.append(kw)
        out.append((name, agents))
    return out


def hint_profiles(nodes, k, model, wanted):
    out = []
    for name in wanted:
        if name == "none":
            h = None
        elif name == "one":
            h = {"must_host": {AGENTS[k - 1]: [nodes[0]]}}
        elif name == "all0":  # beyond a0's capacity whenever that is below the total footprint
            h = {"must_host": {AGENTS[0]: list(nodes)}}
        elif name == "two":
            if k < 2 or len(nodes) < 2:
                continue
            h = {"must_host": {AGENTS[0]: [nodes[-1]], AGENTS[k - 1]: [nodes[0]]}}
        else:  # "hw": host_with; on a factor graph the first factor with one of its variables
            if len(nodes) < 2:
                continue
            if model == "factor_graph":
                facs = [n for n in nodes if n[0] in "cr"]
                if not facs:
                    continue
                h = {"host_with": {facs[0]: [nodes[0]]}}
            else:
                h = {"host_with": {nodes[0]: [nodes[1]]}}
        out.append((name, h))
    return out


# per tier / method class: the menus whose full product is enumerated
def plan(tier):
    q = tier == "quick"
    P = {}
    all_caps = ["ample", "sum", "fmax", "below", "plus1", "tight", "bigfirst", "biglast", "zerolast", "zerofirst"]
    P["draws"] = 4 if q else 6  # random() draws answered from the 2-point menu, per call
    P["perm"] = 4 if q else 5  # lists up to this length: every permutation at the first shuffle of a call
    P["generic_shapes"] = [0, 1, 3, 4, 5, 6, 7, 8, 9, 11] if q else list(range(len(GENERIC_SHAPES)))
    P["secp_shapes"] = [0, 1, 2, 4, 5] if q else list(range(len(SECP_SHAPES)))
    P["agents"] = [1, 2, 3] if q else [1, 2, 3, 4]
    P["menus"] = {
        # dimensions a method never reads are kept at their default
        "oneagent": dict(caps=["ample", "below"], hosting=["unset"], routes=["unset"], hints=["none", "one"]),
        "adhoc": dict(caps=all_caps if not q else all_caps[:7] + ["zerolast"], hosting=["unset", "pin"], routes=["unset"],
                      hints=["none", "one", "all0", "two", "hw"]),
        "greedy": dict(caps=all_caps if not q else ["ample", "sum", "fmax", "below", "tight", "bigfirst"],
                       hosting=["unset", "d1", "pin", "costs"] if not q else ["unset", "d1", "pin"],
                       routes=["unset", "r3"], hints=["none", "one"]),
        "secp": dict(caps=all_caps if not q else ["ample", "sum", "fmax", "below", "tight", "bigfirst"],
                     routes=["unset", "r3"] if not q else ["unset"], hints=["none", "one"],
                     default_hosting=[100, 1] if not q else [100]),
    }
    # ILP methods: each solver call is a CBC process (~50 ms unloaded)
    if q:
        P["ilp"] = dict(shapes=[0, 3, 5], agents=[1, 2], caps=["ample", "tight", "below"],
                        hosting=["unset", "d1", "pin"], routes=["unset"], hints=["none"],
                        models={"oilp_cgdp": ["constraints_hypergraph", "factor_graph"],
                                "ilp_compref": ["constraints_hypergraph", "pseudotree"],
                                "ilp_fgdp": ["factor_graph"], "ilp_compref_fg": ["factor_graph"]},
                        secp_shapes=[0, 2, 5], secp_caps=["ample", "tight", "below"], secp_routes=["unset"],
                        secp_hints=["none"], secp_default_hosting=[100])
    else:
        P["ilp"] = dict(shapes=[0, 3, 5, 7, 8, 11], agents=[1, 2, 3], caps=["ample", "fmax", "tight", "below", "bigfirst"],
                        hosting=["unset", "d1", "pin"], routes=["unset", "r3"], hints=["none", "one"],
                        models={m: METHODS[m][0] for m in ("oilp_cgdp", "ilp_compref", "ilp_fgdp", "ilp_compref_fg")},
                        secp_shapes=list(range(len(SECP_SHAPES))), secp_caps=["ample", "fmax", "tight", "below", "bigfirst"],
                        secp_routes=["unset", "r3"], secp_hints=["none", "one"], secp_default_hosting=[100, 1])
    return P


def _merge(*dicts):
    out = {}
    for d in dicts:
        out.update(d)
    return out


def _agent_rows(k, caps, hosting, routes):
    return [_merge({"name": AGENTS[i], "capacity": caps[i]}, hosting[i], routes[i]) for i in range(k)]


def generic_jobs(P, method, shapes, agent_counts, menu, models):
    for si in shapes:
        shape = GENERIC_SHAPES[si]
        for model in models:
            fp_kinds = ["algo", "unit"] if model == "pseudotree" else ["algo"]
            for fp_kind in fp_kinds:
                _, _, _, nodes, fps = build_graph("generic", shape, model, fp_kind)
                ref_fps = fps if fps is not None else {n: 1 for n in nodes}
                for k in agent_counts:
                    for cname, caps in capacity_vectors(ref_fps, k, menu["caps"]):
                        for hname, hosting in hosting_profiles(nodes, k, menu["hosting"]):
                            for rname, routes in route_profiles(k, menu["routes"]):
                                for tname, hints in hint_profiles(nodes, k, model, menu["hints"]):
                                    yield {
                                        "family": "generic", "shape": _norm(shape), "model": model, "fp": fp_kind,
                                        "method": method, "agents": _agent_rows(k, caps, hosting, routes),
                                        "hints": hints, "tag": [cname, hname, rname, tname],
                                    }


def secp_jobs(P, method, shapes, caps_menu, routes_menu, hints_menu, default_hostings, models):
    for si in shapes:
        shape = SECP_SHAPES[si]
        nl = shape[0]
        for model in models:
            _, _, _, nodes, fps = build_graph("secp", shape, model, "algo")
            for k in (nl, nl + 1):  # one agent per light, optionally one agent owning no actuator
                for dh in default_hostings:
                    hosting = [
                        {"default_hosting_cost": dh, "hosting_costs": {f"l{i}": 0, f"c_l{i}": 0}} if i < nl
                        else {"default_hosting_cost": dh}
                        for i in range(k)
                    ]
                    for cname, caps in capacity_vectors(fps, k, caps_menu):
                        for rname, routes in route_profiles(k, routes_menu):
                            for tname, hints in hint_profiles(nodes, k, model, hints_menu):
                                yield {
                                    "family": "secp", "shape": _norm(shape), "model": model, "fp": "algo",
                                    "method": method, "agents": _agent_rows(k, caps, hosting, routes),
                                    "hints": hints, "tag": [cname, "secp%d" % dh, rname, tname],
                                }


def jobs(tier):
    """Every (instance, method) pair of the tier, simplest first within each method."""
    P = plan(tier)
    M = P["menus"]
    both = ["constraints_hypergraph", "factor_graph"]
    streams = [
        generic_jobs(P, "oneagent", P["generic_shapes"], P["agents"], M["oneagent"], ALL_MODELS),
        generic_jobs(P, "adhoc", P["generic_shapes"], P["agents"], M["adhoc"], ALL_MODELS),
        generic_jobs(P, "heur_comhost", P["generic_shapes"], P["agents"], M["greedy"], ALL_MODELS),
        generic_jobs(P, "gh_cgdp", P["generic_shapes"], P["agents"], M["greedy"], ALL_MODELS),
    ]
    S = M["secp"]
    for m in ("gh_secp_cgdp", "gh_secp_fgdp"):
        streams.append(secp_jobs(P, m, P["secp_shapes"], S["caps"], S["routes"], S["hints"], S["default_hosting"],
                                 METHODS[m][0]))
    # the generic heuristics also get the SECP-shaped problems (per-computation hosting cost tables)
    for m in ("oneagent", "adhoc", "heur_comhost", "gh_cgdp"):
        streams.append(secp_jobs(P, m, P["secp_shapes"], ["ample", "tight", "below"], ["unset"], S["hints"], [100], both))
    I = P["ilp"]
    ilp_menu = dict(caps=I["caps"], hosting=I["hosting"], routes=I["routes"], hints=I["hints"])
    for m, models in I["models"].items():
        streams.append(generic_jobs(P, m, I["shapes"], I["agents"], ilp_menu, models))
    for m in ("oilp_secp_cgdp", "oilp_secp_fgdp"):
        streams.append(secp_jobs(P, m, I["secp_shapes"], I["secp_caps"], I["secp_routes"], I["secp_hints"],
                                 I["secp_default_hosting"], METHODS[m][0]))
    if tier != "quick":
        for m in ("ilp_fgdp", "oilp_cgdp"):
            streams.append(secp_jobs(P, m, [2, 5], ["ample", "tight", "below"], ["unset"], ["none"], [100],
                                     ["factor_graph"]))
    # a slice through the real command (YAML file -> commands.distribute.run_cmd -> printed YAML), both tiers
    cmd_menu = dict(caps=["ample", "below"], hosting=["unset", "d1"], routes=["unset"], hints=["none", "one"])
    cmd_streams = []
    for m in ("oneagent", "adhoc", "heur_comhost", "gh_cgdp", "ilp_fgdp", "ilp_compref", "oilp_cgdp"):
        cmd_streams.append(generic_jobs(P, m, [3, 5], [2], cmd_menu, [x for x in both if x in METHODS[m][0]]))
    for m in ("gh_secp_cgdp", "gh_secp_fgdp", "oilp_secp_cgdp", "oilp_secp_fgdp"):
        cmd_streams.append(secp_jobs(P, m, [2], ["ample", "below"], ["unset"], ["none"], [100], METHODS[m][0]))
    for s in streams:
        for job in s:
            job["draws"] = P["draws"]
            job["perm"] = P["perm"]
            yield job
    for s in cmd_streams:
        for job in s:
            job["draws"] = P["draws"]
            job["perm"] = P["perm"]
            job["via"] = "command"
            yield job


# ------------------------------------------------------------------------------- owning the random draws
class Facade(choice.RandomFacade):
    """random(): the first `draws` draws of a call range over {0.0, 0.999999}, later ones are 0.5.
    shuffle(): 1st shuffle of a call = every permutation of lists up to `perm` elements (longer: identity, reversed,
    rotations); 2nd = every permutation up to 3 elements (longer: identity, reversed); later ones (adhoc re-shuffles at
    every retry, and retries nest) = identity / reversed up to 3 elements, identity beyond."""

    draws = 4
    perm = 4

    def random(self):
        ctl = choice.CURRENT
        n = getattr(ctl, "c23_draws", 0)
        ctl.c23_draws = n + 1
        if n >= self.draws:
            return 0.5
        return self.unit_menu[ctl.pick(2, "random")]

    def shuffle(self, lst):
        ctl = choice.CURRENT
        n = getattr(ctl, "c23_shuffles", 0)
        ctl.c23_shuffles = n + 1
        items = list(lst)
        rotations = [tuple(items), tuple(reversed(items))] + [tuple(items[r:] + items[:r]) for r in range(1, len(items))]
        if n == 0:
            orders = list(itertools.permutations(items)) if len(items) <= self.perm else rotations
        elif n == 1:
            orders = list(itertools.permutations(items)) if len(items) <= 3 else rotations[:2]
        else:
            orders = rotations[:2] if len(items) <= 3 else rotations[:1]
        orders = [o for i, o in enumerate(orders) if o not in orders[:i]]
        if len(orders) == 1:
            lst[:] = list(orders[0])
        else:
            lst[:] = list(orders[ctl.pick(len(orders), "shuffle")])


_SETUP = {}
SOLVES = [0]  # CBC processes started by this process


def setup():
    """Import the twelve modules; rebind their random sources and the GLPK_CMD name (trusted base)."""
    if _SETUP:
        return _SETUP
    from importlib import import_module

    import pulp

    class GlpkShim(pulp.PULP_CBC_CMD):
        """Accepts GLPK_CMD's arguments, solves with the bundled CBC (no glpsol binary in this environment)."""

        def __init__(self, path=None, keepFiles=0, mip=1, msg=1, options=None, timeLimit=None, **kwargs):
            options = list(options or [])
            if "--tmlim" in options:
                timeLimit = float(options[options.index("--tmlim") + 1])
            pulp.PULP_CBC_CMD.__init__(self, msg=False, timeLimit=timeLimit, mip=bool(mip))

        def actualSolve(self, lp, **kwargs):
            # GLPK_CMD hands the model over as an LP file: writeLP refuses over-long and repeated variable names
            # (PulpError); CBC's MPS hand-over would instead fail inside the solver process
            lp.checkLengthVars(100)
            lp.checkDuplicateVars()
            SOLVES[0] += 1
            return pulp.PULP_CBC_CMD.actualSolve(self, lp, **kwargs)

    mods = {m: import_module("pydcop.distribution." + m) for m in METHODS}
    for m in ILP_MODULES:
        if not hasattr(mods[m], "GLPK_CMD"):
            raise RuntimeError("no GLPK_CMD name in " + m)
        mods[m].GLPK_CMD = GlpkShim
    fac = Facade("c23")
    mods["adhoc"].shuffle = fac.shuffle
    mods["adhoc"].choice = fac.choice
    mods["heur_comhost"].random = fac
    mods["gh_cgdp"].random = fac
    # the methods `pydcop distribute -d` offers, read from the real argument parser: only these are ever called
    # with timeout= (solve / run / orchestrator call distribute() without it)
    import argparse

    from pydcop.commands import distribute as command

    sub = argparse.ArgumentParser().add_subparsers()
    command.set_parser(sub)
    offered = [a.choices for a in sub.choices["distribute"]._actions if a.dest == "distribution"][0]
    _SETUP.update(mods=mods, facade=fac, offered=list(offered))
    return _SETUP


# -------------------------------------------------------------------------------------------- one execution
def make_inputs(job):
    from pydcop.dcop.objects import AgentDef
    from pydcop.distribution.objects import DistributionHints

    cg, memory, load, nodes, fps = build_graph(job["family"], job["shape"], job["model"], job["fp"])
    agents = {}
    for row in job["agents"]:
        kw = {k: v for k, v in row.items() if k != "name"}
        agents[row["name"]] = AgentDef(row["name"], **kw)
    h = job["hints"]
    hints = None if h is None else DistributionHints(must_host=h.get("must_host"), host_with=h.get("host_with"))
    return cg, memory, load, nodes, fps, agents, hints


def _norm(x):
    """Shapes as nested lists (what a JSON round trip gives): the graph cache is keyed by their repr."""
    if isinstance(x, (list, tuple)):
        return [_norm(i) for i in x]
    return x


def _site(exc):
    """Innermost pyDCOP frame of the traceback: 'module.function' (and whether it lies in pydcop/algorithms)."""
    tb, site, in_algo = exc.__traceback__, "?", False
    while tb is not None:
        fn = tb.tb_frame.f_code.co_filename.replace(os.sep, "/")
        if "/pydcop/" in fn:
            site = os.path.basename(fn)[:-3] + "." + tb.tb_frame.f_code.co_name
            in_algo = "/pydcop/algorithms/" in fn
        tb = tb.tb_next
    return site, in_algo


def execute(job, prefix):
    """One real call of <method>.distribute with the random draws answered by `prefix` (then 0).
    Returns (controller, observation)."""
    from pydcop.distribution.objects import ImpossibleDistributionException

    S = setup()
    S["facade"].draws, S["facade"].perm = job["draws"], job["perm"]
    mod = S["mods"][job["method"]]
    cg, memory, load, nodes, fps, agents, hints = make_inputs(job)
    obs = {"timeout_kw": True}
    ctl = choice.set_controller(choice.Controller(prefix))
    kw = dict(hints=hints, computation_memory=memory, communication_load=load)
    try:
        try:
            if job["method"] in S["offered"]:
                res = mod.distribute(cg, agents.values(), timeout=TIMEOUT, **kw)
            else:
                res = mod.distribute(cg, agents.values(), **kw)
        except TypeError as e:
            if "unexpected keyword argument 'timeout'" not in str(e) or e.__traceback__.tb_next is not None:
                raise
            # `pydcop distribute` cannot call this method at all; go on as an API user would
            obs["timeout_kw"] = False
            ctl = choice.set_controller(choice.Controller(prefix))
            res = mod.distribute(cg, agents.values(), **kw)
        obs["kind"] = "returned"
        obs["result"] = res
    except choice.ReplayDivergence:
        raise
    except ImpossibleDistributionException as e:
        obs["kind"] = "impossible"
        obs["msg"] = str(e)[:120]
    except TimeoutError as e:
        obs["kind"] = "timeout"
        obs["msg"] = str(e)[:120]
    except Exception as e:  # noqa
        site, in_algo = _site(e)
        if isinstance(e, NotImplementedError) and in_algo:
            obs["kind"] = "unsupported"
        else:
            obs["kind"] = "raised"
            obs["exc"] = type(e).__name__
            obs["site"] = site
        obs["msg"] = str(e)[:160]
    obs["shuffles"] = getattr(ctl, "c23_shuffles", 0)
    return ctl, obs


def command_yaml(job):
    """The instance as a DCOP YAML document (constraints as intentional sums: same scopes, same domain sizes)."""
    spec = generic_spec(job["shape"]) if job["family"] == "generic" else secp_spec(job["shape"])
    doc = {"name": "c23", "objective": "min", "domains": {}, "variables": {}, "constraints": {}, "agents": {}}
    for v, values in spec["vars"].items():
        doc["domains"]["d_" + v] = {"values": list(values)}
        doc["variables"][v] = {"domain": "d_" + v}
    for c in spec["cons"]:
        doc["constraints"][c["name"]] = {"type": "intention", "function": " + ".join(c["scope"])}
    routes, hosting = {}, {}
    for row in job["agents"]:
        doc["agents"][row["name"]] = {"capacity": row["capacity"]}
        if "default_hosting_cost" in row or "hosting_costs" in row:
            hosting[row["name"]] = {"default": row.get("default_hosting_cost", 0),
                                    "computations": dict(row.get("hosting_costs", {}))}
        if "default_route" in row:
            routes["default"] = row["default_route"]
        if row.get("routes"):
            routes[row["name"]] = dict(row["routes"])
    if routes:
        doc["routes"] = routes
    if hosting:
        doc["hosting_costs"] = hosting
    if job["hints"]:
        doc["distribution_hints"] = {k: {a: list(cs) for a, cs in v.items()} for k, v in job["hints"].items()}
    return doc


def execute_command(job, prefix):
    """The same through the real `pydcop distribute` implementation: commands.distribute.run_cmd on a YAML file."""
    import argparse
    import contextlib
    import io
    import shutil
    import tempfile

    import yaml

    from pydcop.commands import distribute as command
    from pydcop.distribution.objects import Distribution

    S = setup()
    S["facade"].draws, S["facade"].perm = job["draws"], job["perm"]
    obs = {"timeout_kw": True}
    tmp = tempfile.mkdtemp(prefix="c23_cmd_")
    ctl = choice.set_controller(choice.Controller(prefix))
    out = io.StringIO()
    try:
        path = os.path.join(tmp, "dcop.yaml")
        with open(path, "w") as f:
            yaml.safe_dump(command_yaml(job), f)
        args = argparse.Namespace(dcop_files=[path], distribution=job["method"], cost=None,
                                  algo=ALGO_FOR_MODEL[job["model"]], graph=None, output=None)
        try:
            with contextlib.redirect_stdout(out):
                command.run_cmd(args)
            obs.update(kind="raised", exc="NoExit", site="distribute.run_cmd", msg="run_cmd returned without exiting")
        except SystemExit as e:
            printed = yaml.load(out.getvalue(), Loader=yaml.Loader) if e.code == 0 else None
            status = (printed or {}).get("status")
            if status == "SUCCESS":
                obs.update(kind="returned", result=Distribution({a: list(cs) for a, cs in printed["distribution"].items()}))
            elif status == "FAIL":
                obs.update(kind="impossible", msg=str(printed.get("error"))[:120])
            elif status == "TIMEOUT":
                obs.update(kind="timeout", msg="")
            else:
                obs.update(kind="raised", exc="SystemExit", site="distribute.run_cmd",
                           msg=f"exit code {e.code}, status {status}")
        except choice.ReplayDivergence:
            raise
        except Exception as e:  # noqa
            site, in_algo = _site(e)
            if isinstance(e, TypeError) and "unexpected keyword argument 'timeout'" in str(e):
                obs.update(timeout_kw=False, kind="command-crash", msg=str(e)[:160])
            elif isinstance(e, NotImplementedError) and in_algo:
                obs.update(kind="unsupported", msg=str(e)[:160])
            else:
                obs.update(kind="raised", exc=type(e).__name__, site=site, msg=str(e)[:160])
    finally:
        shutil.rmtree(tmp, ignore_errors=True)
    obs["shuffles"] = getattr(ctl, "c23_shuffles", 0)
    return ctl, obs


def judge(job, obs):
    """Reference model. Returns (list of (key, sentence), outcome class, notes)."""
    from pydcop.distribution.objects import Distribution

    m = job["method"]
    _, _, _, cap_aware, hint_doc = METHODS[m]
    bad, notes = [], []
    if not obs["timeout_kw"]:
        bad.append((f"{m}|command-call|TypeError|timeout-keyword-not-accepted",
                    f"{m}.distribute(cg, agents, hints=, computation_memory=, communication_load=, timeout={TIMEOUT}) "
                    "-- the call made by `pydcop distribute` -- raised TypeError (unexpected keyword argument 'timeout')"))
    kind = obs["kind"]
    if kind in ("impossible", "timeout", "unsupported", "command-crash"):
        return bad, kind, notes
    if kind == "raised":
        bad.append((f"{m}|raised|{obs['exc']}|{obs['site']}",
                    f"{m}.distribute raised {obs['exc']}({obs['msg']!r}) in {obs['site']} instead of returning a "
                    "distribution or raising ImpossibleDistributionException"))
        return bad, "raised:" + obs["exc"], notes
    res = obs["result"]
    if not isinstance(res, Distribution):
        bad.append((f"{m}|invalid|not-a-Distribution", f"{m}.distribute returned {type(res).__name__}"))
        return bad, "invalid", notes
    _, _, _, nodes, fps = build_graph(job["family"], job["shape"], job["model"], job["fp"])
    mapping = {a: list(cs) for a, cs in res.mapping().items()}
    obs["mapping"] = {a: sorted(cs) for a, cs in sorted(mapping.items())}
    declared = [r["name"] for r in job["agents"]]
    hosted = [c for cs in mapping.values() for c in cs]
    stray_agents = sorted(a for a in mapping if a not in declared and mapping[a])
    if stray_agents:
        bad.append((f"{m}|invalid|undeclared-agent", f"agents {stray_agents} of the result are not declared ({declared})"))
    twice = sorted({c for c in hosted if hosted.count(c) > 1})
    if twice:
        bad.append((f"{m}|invalid|hosted-twice", f"computations {twice} are hosted more than once: {obs['mapping']}"))
    missing = sorted(set(nodes) - set(hosted))
    if missing:
        bad.append((f"{m}|invalid|not-hosted", f"computations {missing} are not hosted: {obs['mapping']}"))
    unknown = sorted(set(hosted) - set(nodes))
    if unknown:
        bad.append((f"{m}|invalid|unknown-computation", f"{unknown} are not nodes of the graph: {obs['mapping']}"))
    where = {c: a for a, cs in mapping.items() for c in cs}
    must = (job["hints"] or {}).get("must_host") or {}
    broken = sorted((a, c) for a, cs in must.items() for c in cs if where.get(c) != a)
    if broken:
        if hint_doc == "honoured":
            bad.append((f"{m}|invalid|must-host-ignored", f"must_host {must} not honoured for {broken}: {obs['mapping']}"))
        else:
            notes.append("hint_not_honoured_" + hint_doc.replace("-", "_"))
    if cap_aware and fps is not None and not unknown:
        for row in job["agents"]:
            a, cap = row["name"], row["capacity"]
            if not mapping.get(a):
                continue
            used = sum(fps[c] for c in mapping[a])
            if used > cap + 1e-9 * max(1, abs(cap), abs(used)):
                # signature of the cause, computed from the counterexample
                forced = sum(fps[c] for c in must.get(a, []) if c in fps)
                zero = sum(fps[c] for c in mapping[a]
                           if row.get("hosting_costs", {}).get(c, row.get("default_hosting_cost", 0)) == 0)
                if forced > cap and hint_doc == "honoured":
                    why = "must-host-set-exceeds-capacity"
                elif obs.get("shuffles", 0) > 1:
                    why = "after-retry"
                elif (job["hints"] or {}).get("host_with") and hint_doc == "honoured":
                    why = "host-with-hint"
                elif zero > cap and m in PINNING:
                    why = "zero-hosting-cost-pins-exceed-capacity"
                else:
                    why = "plain"
                bad.append((f"{m}|invalid|capacity-exceeded|{why}",
                            f"agent {a} (capacity {cap}) hosts {sorted(mapping[a])} with footprints "
                            f"{[fps[c] for c in sorted(mapping[a])]} = {used}: {obs['mapping']}"))
                break
    return bad, "invalid" if bad and any("|invalid|" in k for k, _ in bad) else "ok", notes


def is_nontrivial(job, fps):
    """>= 2 agents and >= 2 computations, and a binding ingredient: an agent that cannot host everything, a hint,
    or a computation pinned by a zero hosting cost on exactly one agent."""
    rows = job["agents"]
    _, _, _, nodes, _ = build_graph(job["family"], job["shape"], job["model"], job["fp"])
    if len(rows) < 2 or len(nodes) < 2:
        return False
    total = sum(fps.values()) if fps else len(nodes)
    tightcap = any(r["capacity"] < total for r in rows)
    pinned = any("hosting_costs" in r and 0 in r["hosting_costs"].values() for r in rows)
    return tightcap or pinned or job["hints"] is not None


def describe(job, taken):
    ag = ", ".join(
        "{}(cap={}{}{})".format(
            r["name"], r["capacity"],
            "" if "default_hosting_cost" not in r and "hosting_costs" not in r
            else ", hosting={}/{}".format(r.get("default_hosting_cost", 0), r.get("hosting_costs", {})),
            "" if "default_route" not in r else ", route={}/{}".format(r["default_route"], r.get("routes", {})),
        ) for r in job["agents"])
    return (f"{job['family']} problem {job['shape']} as {job['model']} (footprints: {job['fp']}), agents [{ag}], "
            f"hints {job['hints']}, random answers {list(taken)}"
            + (" [through commands.distribute.run_cmd]" if job.get("via") == "command" else ""))


def run_job(job, part, sample=False):
    """All answer vectors of the random draws of one (instance, method) pair."""
    _, _, _, nodes, fps = build_graph(job["family"], job["shape"], job["model"], job["fp"])
    nt = is_nontrivial(job, fps)
    ident = repr((job["family"], job["shape"], job["model"], job["fp"], job["agents"], job["hints"], job["method"],
                  job.get("via", "api")))
    stack, runs = [[]], 0
    while stack:
        prefix = stack.pop()
        solves0 = SOLVES[0]
        ctl, obs = (execute_command if job.get("via") == "command" else execute)(job, prefix)
        bad, outcome, notes = judge(job, obs)
        runs += 1
        part.count("evaluations")
        part.count("calls_" + job["method"])
        part.count("solver_runs", SOLVES[0] - solves0)
        for n in notes:
            part.count(n)
        part.outcome((job["method"], job["model"], job["fp"], job.get("via", "api"), outcome, tuple(sorted(k for k, _ in bad))))
        if nt:
            part.nontriv(ident)
        for key, sentence in bad:
            if "|command-call|" in key and runs > 1:
                continue  # a property of the signature: reported once per (instance, method)
            case = {k: v for k, v in job.items()}
            case["choices"] = list(ctl.taken)
            part.violation(key, sentence + " -- " + describe(job, ctl.taken), case)
        if sample and not stack:
            part.sample({"method": job["method"], "instance": describe(job, ctl.taken), "observed": obs["kind"],
                         "mapping": obs.get("mapping"), "message": obs.get("msg")})
        for i in range(len(prefix), len(ctl.taken)):
            for alt in range(1, ctl.arity[i]):
                stack.append(ctl.taken[:i] + [alt])
    part.maxi("runs_per_job", runs)
    part.count("jobs")
    part.count("jobs_" + job["family"])
    if job.get("via") == "command":
        part.count("jobs_through_run_cmd")
    return runs


def shard(args):
    idx, n, tier = args
    part = Part()
    devnull = open(os.devnull, "w")
    for i, job in enumerate(jobs(tier)):
        if i % n != idx:
            continue
        old = sys.stdout
        sys.stdout = devnull  # PuLP / pyDCOP chatter
        try:
            run_job(job, part, sample=(i % 997 == 0))
        finally:
            sys.stdout = old
    return part


def run(ctx):
    P = plan(ctx.tier)
    ctx.level = "exploration"
    I = P["ilp"]
    ctx.rule = (
        "full product, per method, of: problems (generic DCOP shapes %s of GENERIC_SHAPES = 1-4 variables with unary/binary/"
        "ternary constraints, isolated variables, chains, star, triangle, cycle; SECP shapes %s of SECP_SHAPES = lights, "
        "models c_m<j>, rules, cost factors) x the graph models the method supports (real builders; footprint and load "
        "functions of dsa / maxsum / syncbb / dpop, plus unit footprints on pseudo-trees) x %s agents (SECP: one per "
        "light, optionally one more) x capacity vectors derived from the instance's footprints (ample 10^4, sum, fmax, "
        "fmax-1, fmax+1, sum/k as float, one big + tiny ones) x hosting costs (unset = 0 everywhere, default 1, "
        "home agent at cost 0 + default 5, a table without zeros; SECP: light and cost factor at 0 on their agent) x routes "
        "(unset, default 3 with one cheap link) x hints (none, must-host one, must-host everything on a0 = beyond capacity, "
        "must-host on two agents, host_with). Menus per method: %s; ILP methods (CBC process per solve): %s. Every "
        "random draw is enumerated: adhoc shuffle = all permutations of lists <= %d nodes at the first shuffle of a call "
        "(all permutations of lists <= 3 at every retry; otherwise identity, reversed and rotations), choice = every "
        "element; heur_comhost / gh_cgdp random() tie-breakers = all vectors over {0.0, 0.999999} for the first %d draws "
        "of a call, 0.5 afterwards. One evaluation = one real distribute() call judged by the reference model. "
        "Non-trivial = >= 2 agents and >= 2 computations and (an agent that cannot host everything, or a hint, or a "
        "computation pinned by a zero hosting cost)."
        % (P["generic_shapes"], P["secp_shapes"], P["agents"], P["menus"],
           {k: v for k, v in I.items()}, P["perm"], P["draws"])
    )
    ctx.assumptions = [
        "No glpsol binary exists here: the name GLPK_CMD in pydcop.distribution.{ilp_fgdp,ilp_compref,ilp_compref_fg,"
        "oilp_cgdp,oilp_secp_cgdp,oilp_secp_fgdp} is rebound, from the harness, to a class accepting GLPK_CMD's arguments "
        "(keepFiles, msg, options incl. --tmlim), applying the variable-name checks of the LP-file hand-over GLPK_CMD uses "
        "(PulpError on repeated / over-long names) and delegating to pulp.PULP_CBC_CMD(msg=False, timeLimit=tmlim); CBC is "
        "trusted to solve the model it is given and PuLP to report its status (optimal / infeasible) faithfully.",
        "The random sources of adhoc (shuffle, choice) and heur_comhost / gh_cgdp (random module) are rebound to an "
        "enumerating facade; the bounds on the enumerated answers are those of the rule.",
        "Arguments are those of commands/distribute.py (agents as a dict values view, timeout=3600 for the methods the "
        "command offers); the command itself (YAML file, run_cmd, printed YAML) is exercised on a slice only "
        "(jobs_through_run_cmd), where constraints are written as intentional sums over the same scopes.",
        "What is demanded of a method follows its documentation: oneagent is not capacity-aware; only adhoc documents that "
        "it honours hints; *_secp_* methods only receive inputs satisfying their documented SECP assumptions; "
        "NotImplementedError from dpop.computation_memory / communication_load is the outcome 'unsupported'.",
    ]
    ctx.pmap(shard, ctx.rotate([(i, NSHARDS, ctx.tier) for i in range(NSHARDS)]))


def replay(case):
    job = dict(case)
    job["shape"] = _norm(job["shape"])
    ctl, obs = (execute_command if job.get("via") == "command" else execute)(job, list(case.get("choices", [])))
    bad, outcome, notes = judge(job, obs)
    print("instance :", describe(job, ctl.taken))
    print("method   :", job["method"])
    print("observed :", obs["kind"], obs.get("exc", ""), obs.get("site", ""), obs.get("msg", ""))
    print("mapping  :", obs.get("mapping"))
    for key, sentence in bad:
        print("violation:", key, "::", sentence)
    return bool(bad)
