"""C17 The pseudo-tree is a valid DFS forest for every constraint graph.

Bounded-exhaustive enumeration (E2) of DCOPs fed to the real
pydcop.computations_graph.pseudotree.build_computation_graph; the result is read only through
PseudoTreeNode.links / get_dfs_relations / node.constraints and judged by a validator that works on a reference
model of the constraint graph kept by the check itself (plain index scopes, never pyDCOP objects):

* one node per variable;
* parent/children and pseudo_parent/pseudo_children links mutually consistent, at most one parent, no duplicates;
* the parent relation has no cycle;
* every pair of variables sharing a constraint is ancestor/descendant and directly linked by a tree or a back edge;
  every pseudo-parent is a proper ancestor other than the parent; every link joins two constraint-sharing variables
  (a DFS forest of the constraint graph only has edges of that graph);
* node.constraints == the constraints whose scope contains the variable;
* no exception (long chains included: the size sweep goes to thousands of variables).

The validator is itself checked on every case against a 20-line iterative reference DFS (it must stay silent on a
forest that is correct by construction; otherwise the check aborts as a harness error).
"""
import itertools
import math

from vf.core.runner import Part

# insertion order differs from lexical order and from length order; valid python identifiers (expression constraints)
NAMES = ["v3", "a", "v10", "B", "v2", "zz", "m"]
NSHARD = 64


# --------------------------------------------------------------------------------------------------------------
# case description: {"n": int, "scopes": [[i, j], ...]} or {"family": str, "n": int}; + "variant"
# variant = "<order>/<api>/<ctype>"   order: fwd | rev | p<k> (k-th permutation of the constraint list)
#                                      api:   dcop (build_computation_graph(dcop)) | vc (variables=, constraints=)
#                                      ctype: matrix (NAryMatrixRelation, UnaryFunctionRelation for arity 1)
#                                             expr (constraint_from_str, as the YAML loader builds them)
# --------------------------------------------------------------------------------------------------------------


def fam_chain(k):
    return [(i, i + 1) for i in range(k - 1)]


def fam_star(k):
    return [(0, i) for i in range(1, k)]


def fam_clique(k):
    return list(itertools.combinations(range(k), 2))


def fam_ring(k):
    return fam_chain(k) + ([(0, k - 1)] if k >= 3 else [])


def fam_ladder(k):
    return [(i, i + 2) for i in range(k - 2)] + [(i, i + 1) for i in range(0, k - 1, 2)]


def fam_bintree(k):
    return [((i - 1) // 2, i) for i in range(1, k)]


def fam_hyperchain(k):
    """Sliding ternary windows: consecutive constraints overlap on two variables."""
    if k < 3:
        return fam_chain(k)
    return [(i, i + 1, i + 2) for i in range(k - 2)]


def fam_richchain(k):
    """Chain + a unary constraint on every variable + a second constraint on every even pair + one ternary
    constraint over every third window (a binary constraint inside a ternary scope)."""
    s = []
    for i in range(k):
        s.append((i,))
        if i + 1 < k:
            s.append((i, i + 1))
            if i % 2 == 0:
                s.append((i, i + 1))
        if i % 3 == 0 and i + 2 < k:
            s.append((i, i + 1, i + 2))
    return s


def fam_forest(k):
    """Many components: chains of three variables, and every seventh variable isolated."""
    return [(i, i + 1) for i in range(k - 1) if (i + 1) % 3 != 0 and i % 7 != 6 and (i + 1) % 7 != 6]


FAMILIES = {
    "chain": fam_chain, "star": fam_star, "clique": fam_clique, "ring": fam_ring, "ladder": fam_ladder,
    "bintree": fam_bintree, "hyperchain": fam_hyperchain, "richchain": fam_richchain, "forest": fam_forest,
}


def case_scopes(case):
    if "family" in case:
        return [tuple(s) for s in FAMILIES[case["family"]](case["n"])]
    return [tuple(s) for s in case["scopes"]]


def case_names(case):
    n = case["n"]
    if n <= len(NAMES):
        return NAMES[:n]
    return ["w%d" % i for i in range(n)]  # w10 < w2 lexically: name order != index order


def constraint_names(scopes):
    """k-th constraint -> unique name built from its scope and its rank among equal scopes."""
    seen = {}
    out = []
    for s in scopes:
        key = tuple(sorted(s))
        k = seen.get(key, 0)
        seen[key] = k + 1
        out.append("c" + "_".join(map(str, key)) + ("" if k == 0 else "_dup%d" % k))
    return out


def ordered(scopes, order):
    """The constraint list in the order the variant asks for, as (scope, name) pairs."""
    pairs = list(zip(scopes, constraint_names(scopes)))
    if order == "fwd":
        return pairs
    if order == "rev":
        return [(tuple(reversed(s)), nm) for s, nm in reversed(pairs)]
    if order.startswith("p"):
        k = int(order[1:])
        perm = nth_permutation(len(pairs), k)
        return [pairs[i] for i in perm]
    raise ValueError(order)


def nth_permutation(m, k):
    items = list(range(m))
    out = []
    for i in range(m, 0, -1):
        q, k = divmod(k, math.factorial(i - 1))
        out.append(items.pop(q))
    return out


# --------------------------------------------------------------------------------------------------------------
# the real code
# --------------------------------------------------------------------------------------------------------------
_CACHE = {}


def _variables(names):
    from pydcop.dcop.objects import Domain, Variable

    if "dom" not in _CACHE:
        _CACHE["dom"] = Domain("d", "d", [0, 1])
    out = []
    for nm in names:
        k = ("v", nm)
        if k not in _CACHE:
            _CACHE[k] = Variable(nm, _CACHE["dom"])
        out.append(_CACHE[k])
    return out


def _constraint(scope, cname, names, variables, ctype):
    from pydcop.dcop.relations import NAryMatrixRelation, UnaryFunctionRelation, constraint_from_str

    k = ("c", cname, tuple(names[i] for i in scope), ctype)
    if k in _CACHE:
        return _CACHE[k]
    vs = [variables[i] for i in scope]
    if ctype == "expr":
        c = constraint_from_str(cname, " + ".join(names[i] for i in scope), vs)
    elif len(scope) == 1:
        c = UnaryFunctionRelation(cname, vs[0], lambda x: x)
    else:
        c = NAryMatrixRelation(vs, name=cname)
    if len(_CACHE) < 200000:
        _CACHE[k] = c
    return c


def prepare(case):
    """Builds the pyDCOP input objects; returns the call to the real builder as a thunk."""
    from pydcop.computations_graph import pseudotree
    from pydcop.dcop.dcop import DCOP

    order, api, ctype = case["variant"].split("/")
    names = case_names(case)
    variables = _variables(names)
    if case.get("ext"):
        # a read-only external variable takes part in the flagged constraints: it gets no node and relates nobody
        # (DCOP assembled as the YAML loader does: variables, external_variables and constraints set on the object)
        from pydcop.dcop.objects import ExternalVariable
        from pydcop.dcop.relations import constraint_from_str

        ext = ExternalVariable("EXT", _CACHE["dom"], 0)
        cons = {}
        for (sc, nm), flag in zip(ordered(case_scopes(case), "fwd"), case["ext"]):
            vs = [variables[i] for i in sc] + ([ext] if flag else [])
            cons[nm] = constraint_from_str(nm, " + ".join(v.name for v in vs), vs)
        dcop = DCOP("c17e", "min", variables={v.name: v for v in variables}, constraints=cons)
        dcop.external_variables = {"EXT": ext}
        return lambda: pseudotree.build_computation_graph(dcop)
    cons = [_constraint(tuple(s), nm, names, variables, ctype) for s, nm in ordered(case_scopes(case), order)]
    if api == "vc":
        return lambda: pseudotree.build_computation_graph(None, variables=list(variables), constraints=list(cons))
    dcop = DCOP("c17")
    for v in variables:
        dcop.add_variable(v)
    for c in cons:
        dcop.add_constraint(c)
    return lambda: pseudotree.build_computation_graph(dcop)


def observe(graph):
    """What the property talks about, as plain data. links are read directly AND through get_dfs_relations."""
    from pydcop.computations_graph.pseudotree import get_dfs_relations

    obs = {"nodes": [], "rel": {}, "cons": {}, "var": {}, "gdr": {}}
    for node in graph.nodes:
        nm = node.name
        obs["nodes"].append(nm)
        rel = {"parent": [], "children": [], "pseudo_parent": [], "pseudo_children": []}
        for l in node.links:
            if l.source == nm and l.type in rel:
                rel[l.type].append(l.target)
        obs["rel"][nm] = rel
        obs["cons"][nm] = [c.name for c in node.constraints]
        obs["var"][nm] = node.variable.name
        p, pp, ch, pc = get_dfs_relations(node)
        obs["gdr"][nm] = {"parent": [] if p is None else [p], "children": list(ch), "pseudo_parent": list(pp),
                          "pseudo_children": list(pc)}
    return obs


def crash_key(exc):
    """Signature of a crash: exception type + the pseudotree.py functions that recurse (RecursionError) or the
    innermost pseudotree.py function (anything else)."""
    funcs = []
    tb = exc.__traceback__
    while tb is not None:
        code = tb.tb_frame.f_code
        if code.co_filename.endswith("pseudotree.py"):
            funcs.append(code.co_name)
        tb = tb.tb_next
    if isinstance(exc, RecursionError):
        rec = sorted({f for f in funcs if funcs.count(f) >= 20}) if len(funcs) < 20000 else ["?"]
        return "crash|RecursionError|recursive=" + "+".join(rec or ["?"])
    return "crash|" + type(exc).__name__ + "|in=" + (funcs[-1] if funcs else "outside-pseudotree")


# --------------------------------------------------------------------------------------------------------------
# reference model + validator
# --------------------------------------------------------------------------------------------------------------


def ref_adjacency(n, scopes):
    adj = [set() for _ in range(n)]
    for s in scopes:
        for a in s:
            for b in s:
                if a != b:
                    adj[a].add(b)
    return adj


def ref_forest(names, scopes):
    """A DFS forest that is correct by construction (iterative), in the same shape as observe()."""
    n = len(names)
    adj = [sorted(a) for a in ref_adjacency(n, scopes)]
    parent = [None] * n
    state = [0] * n  # 0 new, 1 on the stack, 2 done
    for r in range(n):
        if state[r]:
            continue
        state[r] = 1
        stack = [(r, iter(adj[r]))]
        while stack:
            x, it = stack[-1]
            for y in it:
                if state[y] == 0:
                    state[y] = 1
                    parent[y] = x
                    stack.append((y, iter(adj[y])))
                    break
            else:
                state[x] = 2
                stack.pop()
    anc = _ancestry(list(range(n)), {i: parent[i] for i in range(n)})
    obs = {"nodes": list(names), "rel": {}, "cons": {nm: [] for nm in names}, "var": {nm: nm for nm in names}}
    for i in range(n):
        obs["rel"][names[i]] = {"parent": [] if parent[i] is None else [names[parent[i]]], "children": [],
                                "pseudo_parent": [], "pseudo_children": []}
    for i in range(n):
        if parent[i] is not None:
            obs["rel"][names[parent[i]]]["children"].append(names[i])
        for j in adj[i]:
            if j != parent[i] and anc(j, i) and j != i:
                obs["rel"][names[i]]["pseudo_parent"].append(names[j])
                obs["rel"][names[j]]["pseudo_children"].append(names[i])
    for s, cn in zip(scopes, constraint_names(scopes)):
        for i in set(s):
            obs["cons"][names[i]].append(cn)
    obs["gdr"] = obs["rel"]
    return obs


def _ancestry(nodes, parent):
    """parent: node -> parent or None, acyclic. Returns anc(u, v): u is an ancestor of v or v itself."""
    kids = {x: [] for x in nodes}
    roots = []
    for x in nodes:
        if parent[x] is None:
            roots.append(x)
        else:
            kids[parent[x]].append(x)
    tin, tout = {}, {}
    clock = 0
    for r in roots:
        stack = [(r, 0)]
        tin[r] = clock
        clock += 1
        while stack:
            x, i = stack.pop()
            if i < len(kids[x]):
                stack.append((x, i + 1))
                c = kids[x][i]
                tin[c] = clock
                clock += 1
                stack.append((c, 0))
            else:
                tout[x] = clock
                clock += 1
    return lambda u, v: tin[u] <= tin[v] and tout[v] <= tout[u]


def validate(names, scopes, obs):
    """Returns [(key, sentence)], at most one per key. Everything expected comes from names/scopes only."""
    out = {}

    def bad(key, msg):
        out.setdefault(key, msg)

    n = len(names)
    idx = {nm: i for i, nm in enumerate(names)}
    # 1. one node per variable
    got = obs["nodes"]
    if len(set(got)) != len(got):
        bad("nodes|duplicate", f"node names {sorted(got)} contain a duplicate")
    if set(names) - set(got):
        bad("nodes|missing", f"no node for variable(s) {sorted(set(names) - set(got))}")
    if set(got) - set(names):
        bad("nodes|extra", f"node(s) {sorted(set(got) - set(names))} match no variable")
    for nm in got:
        if obs["var"][nm] != nm:
            bad("nodes|variable-mismatch", f"node {nm} carries variable {obs['var'][nm]}")
    if out:
        return sorted(out.items())
    rel = obs["rel"]
    # links seen through get_dfs_relations == links read from node.links
    for nm in names:
        for t in ("parent", "children", "pseudo_parent", "pseudo_children"):
            a, b = rel[nm][t], obs["gdr"][nm][t]
            if (a[-1:] if t == "parent" else a) != b:
                bad("get_dfs_relations|differs-from-links|type=" + t, f"node {nm}: get_dfs_relations gives {t}={b}, links say {a}")
    # 2. well-formed link lists
    for nm in names:
        for t, targets in rel[nm].items():
            if len(set(targets)) != len(targets) and t != "parent":
                bad("links|duplicate|type=" + t, f"node {nm} has duplicate {t} links {targets}")
            for x in targets:
                if x not in idx:
                    bad("links|unknown-target|type=" + t, f"node {nm} has a {t} link to {x}, which is no node")
                elif x == nm:
                    bad("links|self|type=" + t, f"node {nm} has a {t} link to itself")
        if len(rel[nm]["parent"]) > 1:
            bad("links|multiple-parents", f"node {nm} has parent links to {rel[nm]['parent']}")
    if out:
        return sorted(out.items())
    # 3. mutual consistency
    mirror = {"parent": "children", "children": "parent", "pseudo_parent": "pseudo_children", "pseudo_children": "pseudo_parent"}
    for nm in names:
        for t, targets in rel[nm].items():
            for x in targets:
                if nm not in rel[x][mirror[t]]:
                    bad(f"links|{t}-without-{mirror[t]}",
                        f"{nm} has a {t} link to {x} but {x} has no {mirror[t]} link to {nm} ({x}: {rel[x]})")
        if set(rel[nm]["parent"]) & set(rel[nm]["pseudo_parent"]):
            bad("links|parent-also-pseudo-parent", f"{nm}: parent {rel[nm]['parent']} is also in pseudo_parent {rel[nm]['pseudo_parent']}")
        if set(rel[nm]["children"]) & set(rel[nm]["pseudo_children"]):
            bad("links|child-also-pseudo-child", f"{nm}: children {rel[nm]['children']} and pseudo_children {rel[nm]['pseudo_children']} overlap")
    # 4. no cycle in the parent relation
    parent = {nm: (rel[nm]["parent"][0] if rel[nm]["parent"] else None) for nm in names}
    color = {}
    for nm in names:
        path = []
        x = nm
        while x is not None and x not in color:
            color[x] = 1
            path.append(x)
            x = parent[x]
        if x is not None and color[x] == 1:
            bad("tree|parent-cycle", f"following parent links from {nm} comes back to {x}: {path}")
        for y in path:
            color[y] = 2
    # 6. constraints carried by the nodes (independent of the tree shape)
    exp_cons = {nm: [] for nm in names}
    arity = {}
    for s, cn in zip(scopes, constraint_names(scopes)):
        arity[cn] = len(s)
        for i in set(s):
            exp_cons[names[i]].append(cn)
    for nm in names:
        g, e = obs["cons"][nm], exp_cons[nm]
        if len(set(g)) != len(g):
            bad("constraints|duplicate", f"node {nm} carries {g}")
        for cn in sorted(set(e) - set(g)):
            bad("constraints|missing|arity=%d" % arity[cn], f"node {nm} carries {sorted(g)}, constraint {cn} on it is missing (expected {sorted(e)})")
        for cn in sorted(set(g) - set(e)):
            bad("constraints|extra", f"node {nm} carries {cn}, which is not a constraint on {nm} (expected {sorted(e)})")
    if "tree|parent-cycle" in out:
        return sorted(out.items())
    # 5. DFS property
    anc = _ancestry(names, parent)
    adj = ref_adjacency(n, scopes)
    pps = {nm: set(rel[nm]["pseudo_parent"]) for nm in names}
    min_arity = {}
    for s in scopes:
        for a in s:
            for b in s:
                if a < b:
                    min_arity[(a, b)] = min(len(s), min_arity.get((a, b), 99))
    for (a, b), ar in sorted(min_arity.items()):
        u, v = names[a], names[b]
        tree = parent[u] == v or parent[v] == u
        back = u in pps[v] or v in pps[u]
        if not (anc(u, v) or anc(v, u)):
            bad("dfs|constraint-pair-on-two-branches|arity=%d" % ar, f"{u} and {v} share a constraint but neither is an ancestor of the other (parents {parent})")
        elif not (tree or back):
            bad("dfs|constraint-pair-not-linked|arity=%d" % ar, f"{u} and {v} share a constraint but no parent or pseudo_parent link joins them (parents {parent}, pseudo_parents {rel[u]['pseudo_parent']}/{rel[v]['pseudo_parent']})")
    for nm in names:
        for q in rel[nm]["pseudo_parent"]:
            if not anc(q, nm) or q == nm:
                bad("dfs|pseudo-parent-not-ancestor", f"{q} is a pseudo_parent of {nm} but not one of its ancestors (parents {parent})")
            if idx[q] not in adj[idx[nm]]:
                bad("dfs|pseudo-link-without-constraint", f"{nm} has pseudo_parent {q} but they share no constraint")
        p = parent[nm]
        if p is not None and idx[p] not in adj[idx[nm]]:
            bad("dfs|tree-link-without-constraint", f"{nm} has parent {p} but they share no constraint")
    return sorted(out.items())


# --------------------------------------------------------------------------------------------------------------
# evaluation of one case
# --------------------------------------------------------------------------------------------------------------


def describe(case):
    if "family" in case:
        return f"{case['family']}({case['n']}) [{case['variant']}]"
    names = case_names(case)
    return f"variables {names}, constraint scopes {[[names[i] for i in s] for s in case['scopes']]} [{case['variant']}]"


def is_nontrivial(n, scopes):
    """A valid forest needs a back edge (cyclic primal graph), or two constraints overlap on >= 2 variables,
    or there are >= 2 components with an edge, or the tree must be deeper than 50."""
    adj = ref_adjacency(n, scopes)
    edges = sum(len(a) for a in adj) // 2
    comp = [None] * n
    ncomp = big = 0
    for r in range(n):
        if comp[r] is None:
            comp[r] = r
            todo = [r]
            size = 0
            while todo:
                x = todo.pop()
                size += 1
                for y in adj[x]:
                    if comp[y] is None:
                        comp[y] = r
                        todo.append(y)
            ncomp += 1
            big += size > 1
    if edges > n - ncomp or big >= 2:
        return True
    seen = set()
    for s in scopes:
        for pair in itertools.combinations(sorted(set(s)), 2):
            if pair in seen:
                return True
        seen.update(itertools.combinations(sorted(set(s)), 2))
    return False


def evaluate(case, part, selfcheck=True):
    """Runs one case on the real code; records violations; returns the observed outcome token."""
    names = case_names(case)
    scopes = case_scopes(case)
    call = prepare(case)
    try:
        graph = call()
        obs = observe(graph)
    except Exception as e:  # the property: construction never crashes
        key = crash_key(e)
        msg = f"{type(e).__name__}: {str(e)[:100]}"
        part.violation(key, f"build_computation_graph on {describe(case)} raised {msg}", case)
        return ("crash", key)
    found = validate(names, scopes, obs)
    for key, msg in found:
        part.violation(key, f"{describe(case)}: {msg}", case)
    if selfcheck:
        ref = ref_forest(names, scopes)
        silent = validate(names, scopes, ref)
        if silent:
            raise AssertionError(f"oracle rejects a correct forest on {describe(case)}: {silent}")
        part.count("oracle_selfchecks")
    shape = tuple((nm, tuple(obs["rel"][nm]["parent"]), tuple(sorted(obs["rel"][nm]["pseudo_parent"]))) for nm in obs["nodes"])
    return ("forest", shape, tuple(k for k, _ in found))


def account(case, part, token, sample=False):
    part.count("evaluations")
    n = case["n"]
    scopes = case_scopes(case)
    part.maxi("variables", n)
    part.maxi("constraints", len(scopes))
    if n > 50 or is_nontrivial(n, scopes):
        part.nontriv((case.get("family"), n, tuple(scopes) if "family" not in case else None, case["variant"]))
    part.outcome(token if n <= 60 else (case.get("family"), n, token[0], token[-1]))
    if sample:
        part.sample({"case": case if "family" in case or n <= 7 else "..", "outcome": token[0],
                     "parents_pseudo_parents": list(token[1])[:8] if token[0] == "forest" else token[1]})


# --------------------------------------------------------------------------------------------------------------
# enumerations
# --------------------------------------------------------------------------------------------------------------


def all_scopes(n, max_arity):
    return [s for k in range(1, max_arity + 1) for s in itertools.combinations(range(n), k)]


def enum_graphs(n, variants):
    """Every labelled graph on n vertices (isolated vertices and disconnected graphs included) as binary constraints."""
    edges = list(itertools.combinations(range(n), 2))
    for mask in range(1 << len(edges)):
        scopes = [e for i, e in enumerate(edges) if mask >> i & 1]
        for v in variants:
            yield {"n": n, "scopes": scopes, "variant": v}


def enum_graph_orders(n):
    """Every labelled graph on n vertices with EVERY order of its constraint list."""
    edges = list(itertools.combinations(range(n), 2))
    for mask in range(1 << len(edges)):
        scopes = [e for i, e in enumerate(edges) if mask >> i & 1]
        f = 1
        for i in range(2, len(scopes) + 1):
            f *= i
        for k in range(f):
            yield {"n": n, "scopes": scopes, "variant": "p%d/%s" % (k, ["dcop/matrix", "vc/expr"][k % 2])}


def enum_overlay(n):
    """Every labelled graph on n vertices + one more constraint of every scope of size 1..4 (a second constraint
    on an existing or new pair, a unary constraint, a ternary/4-ary constraint over existing binary ones)."""
    extra = all_scopes(n, 4)
    for g in enum_graphs(n, ["fwd"]):
        for j, x in enumerate(extra):
            yield {"n": n, "scopes": g["scopes"] + [x], "variant": ["fwd/dcop/matrix", "rev/vc/expr"][j % 2]}
            yield {"n": n, "scopes": [x] + g["scopes"], "variant": ["fwd/dcop/expr", "rev/dcop/matrix"][j % 2]}


def enum_multisets(n, max_cons, max_arity):
    """Every multiset of <= max_cons constraints over every scope of size 1..max_arity on n variables."""
    scopes = all_scopes(n, max_arity)
    for m in range(0, max_cons + 1):
        for j, combo in enumerate(itertools.combinations_with_replacement(scopes, m)):
            yield {"n": n, "scopes": list(combo), "variant": ["fwd/dcop/matrix", "rev/dcop/expr", "fwd/vc/expr"][j % 3]}


def enum_ext(n, max_cons, max_arity):
    """Every multiset of 1..max_cons constraints, every non-empty subset of them also involving the external variable."""
    scopes = all_scopes(n, max_arity)
    for m in range(1, max_cons + 1):
        for combo in itertools.combinations_with_replacement(scopes, m):
            for mask in range(1, 2 ** m):
                yield {"n": n, "scopes": list(combo), "variant": "fwd/dcop/expr", "ext": [bool((mask >> i) & 1) for i in range(m)]}


def small_plan(quick):
    """[(label, generator factory)] - simplest first."""
    two = ["fwd/dcop/matrix", "rev/vc/expr"]
    plan = []
    for n in (1, 2, 3, 4, 5):
        plan.append(("graphs n=%d x2 orders" % n, lambda n=n: enum_graphs(n, two)))
    for n in (2, 3, 4):
        plan.append(("graphs n=%d x all constraint orders" % n, lambda n=n: enum_graph_orders(n)))
    plan.append(("graphs n=6 x2 orders", lambda: enum_graphs(6, two)))
    for n in (1, 2, 3, 4):
        plan.append(("overlay n=%d" % n, lambda n=n: enum_overlay(n)))
    plan.append(("multisets n=2 <=5 constraints arity<=2", lambda: enum_multisets(2, 5, 2)))
    plan.append(("multisets n=3 <=5 constraints arity<=3", lambda: enum_multisets(3, 5, 3)))
    plan.append(("multisets n=4 <=4 constraints arity<=4", lambda: enum_multisets(4, 4, 4)))
    plan.append(("multisets n=5 <=3 constraints arity<=3", lambda: enum_multisets(5, 3, 3)))
    plan.append(("external variable: multisets n=3 <=3 constraints arity<=2", lambda: enum_ext(3, 3, 2)))
    if not quick:
        plan.append(("external variable: multisets n=4 <=3 constraints arity<=3", lambda: enum_ext(4, 3, 3)))
        plan.append(("overlay n=5", lambda: enum_overlay(5)))
        plan.append(("multisets n=4 <=6 constraints arity<=4", lambda: enum_multisets(4, 6, 4)))
        plan.append(("multisets n=5 <=4 constraints arity<=3", lambda: enum_multisets(5, 4, 3)))
        plan.append(("multisets n=6 <=3 constraints arity<=3", lambda: enum_multisets(6, 3, 3)))
        plan.append(("graphs n=7 fwd", lambda: enum_graphs(7, ["fwd/dcop/matrix"])))
    return plan


def sweep_cases(quick):
    """Size sweeps; every case is one work item."""
    out = []
    top = 60 if quick else 100
    for k in range(1, top + 1):
        for fam in ("chain", "star", "clique", "ring", "ladder", "bintree", "hyperchain", "richchain", "forest"):
            out.append({"family": fam, "n": k, "variant": ["fwd/dcop/matrix", "rev/vc/expr"][k % 2]})
    long_chain = [100, 200, 300, 400, 500, 700, 1000, 1500, 2000, 3000] + ([] if quick else [4000, 5000])
    for k in long_chain:
        out.append({"family": "chain", "n": k, "variant": "fwd/dcop/matrix"})
    others = [(f, k) for k in ([150, 400, 1000] if quick else [150, 400, 1000, 2000, 3000])
              for f in ("hyperchain", "richchain", "ring", "ladder", "bintree", "star")]
    others += [("forest", 150), ("clique", 80)] if quick else [("forest", 150), ("forest", 400), ("clique", 80), ("clique", 150)]
    for f, k in others:
        out.append({"family": f, "n": k, "variant": "rev/dcop/expr" if f == "richchain" else "fwd/dcop/matrix"})
    return out


def shard_small(args):
    label_idx, idx, quick = args
    part = Part()
    label, factory = small_plan(quick)[label_idx]
    for i, case in enumerate(factory()):
        if i % NSHARD != idx:
            continue
        # the oracle's own sanity check runs on every case up to 6 variables, on every 8th of the 2M 7-variable graphs
        token = evaluate(case, part, selfcheck=(case["n"] <= 6 or i % 8 == 0))
        part.count("cases:" + label)
        account(case, part, token, sample=(i in (5, 77)))
    return part


def shard_sweep(case):
    part = Part()
    token = evaluate(case, part)
    part.count("cases:sweep n<=100" if case["n"] <= 100 else "cases:sweep n>100")
    account(case, part, token, sample=(case["family"] == "chain" and case["n"] in (40, 3000)))
    return part


# --------------------------------------------------------------------------------------------------------------
# histories: ONE DCOP object, changed through its public API and re-built after every step
# --------------------------------------------------------------------------------------------------------------
H_N = 4
H_KNAMES = ["k0", "k1", "k2", "k3"]
H_SCOPES = list(itertools.combinations(range(H_N), 2)) + [(0, 1, 2), (1, 2, 3)]
H_INIT = {"k0": (0, 1), "k1": (1, 2), "k2": (2, 3)}


def hist_ops():
    return [("set", k, s) for k in H_KNAMES for s in H_SCOPES] + [("del", k) for k in H_KNAMES]


def hist_check(dcop, model, names, hist, part):
    """build_computation_graph(dcop) on the current object, judged against the current definition (model: kname -> scope)."""
    from pydcop.computations_graph import pseudotree

    knames = sorted(model)
    scopes = [model[k] for k in knames]
    derived = dict(zip(knames, constraint_names(scopes)))
    case = {"history": [list(o) for o in hist]}
    try:
        obs = observe(pseudotree.build_computation_graph(dcop))
    except Exception as e:  # noqa
        part.violation("history|" + crash_key(e), f"one DCOP object, history {hist}: build_computation_graph raised {type(e).__name__}: {str(e)[:100]}", case)
        return False
    for nm in obs["cons"]:
        obs["cons"][nm] = [derived.get(c, "<" + c + ">") for c in obs["cons"][nm]]
    found = validate(names, scopes, obs)
    for key, msg in found:
        step = "after-" + hist[-1][0] if hist else "initial"
        part.violation(f"history|{key}|{step}", f"one DCOP object, history {hist} (graph re-built after every step), current constraints {dict(zip(knames, scopes))}: {msg}", case)
    part.count("evaluations")
    part.count("history_builds")
    return not found


def hist_run(hist, part):
    from pydcop.dcop.dcop import DCOP
    from pydcop.dcop.relations import NAryMatrixRelation

    names = NAMES[:H_N]
    variables = _variables(names)
    dcop = DCOP("c17h")
    for v in variables:
        dcop.add_variable(v)
    model = {}

    def put(k, sc):
        dcop.add_constraint(NAryMatrixRelation([variables[i] for i in sc], name=k))
        model[k] = tuple(sc)

    for k, sc in H_INIT.items():
        put(k, sc)
    ok = hist_check(dcop, model, names, [], part)
    for i, op in enumerate(hist):
        if op[0] == "set":
            put(op[1], op[2])
        else:
            del dcop.constraints[op[1]]
            del model[op[1]]
        ok = hist_check(dcop, model, names, hist[:i + 1], part) and ok
    return ok, model


def shard_history(args):
    depth, idx = args
    part = Part()
    ops = hist_ops()
    count = [0]

    def rec(hist, model):
        if len(hist) == depth:
            return
        for op in ops:
            if op[0] == "del" and op[1] not in model:
                continue
            if op[0] == "set" and model.get(op[1]) == tuple(op[2]):
                continue
            h2 = hist + [op]
            if len(h2) == 1:
                count[0] += 1
                if count[0] % NSHARD != idx:
                    continue
            ok, m2 = hist_run(h2, part)
            part.count("cases:histories")
            part.nontriv(("history", repr(h2)))
            part.outcome(("history", tuple(sorted(m2.items())), ok))
            if ok:
                rec(h2, m2)

    rec([], dict(H_INIT))
    return part


def shard(item):
    if item[0] == "history":
        return shard_history(item[1:])
    return shard_small(item[1:]) if item[0] == "small" else shard_sweep(item[1])


def run(ctx):
    ctx.level = "exploration"
    plan = small_plan(ctx.quick)
    sweeps = sweep_cases(ctx.quick)
    ctx.rule = (
        "every DCOP of these families is built with the real DCOP/relation classes and given to "
        "pseudotree.build_computation_graph: " + "; ".join(l for l, _ in plan) + " (graphs = all labelled graphs as binary "
        "constraints, isolated variables and disconnected graphs included; overlay = every graph + one extra constraint of every "
        "scope of size 1-4, placed last and first; multisets = all multisets of constraints over all scopes: duplicated pairs, "
        "binary inside ternary, unary; 'external variable' = the same with every non-empty subset of the constraints also involving a read-only "
        "external variable, which must get no node and relate nobody); variants alternate constraint order (forward/reversed/all permutations for n<=4), "
        "entry point (dcop= / variables=,constraints=) and constraint class (matrix/unary function/expression); size sweeps "
        "chain,star,clique,ring,ladder,binary tree,ternary sliding-window chain,rich chain (unary+duplicate+ternary),forest for "
        f"every size 1..{60 if ctx.quick else 100}, and long instances up to {max(c['n'] for c in sweeps)} variables "
        "(chains: 100,200,300,400,500,700,1000,1500,2000,3000..., default recursion limit). Each result is judged by a validator "
        "built on index scopes only, itself checked on each case against a reference iterative DFS. Histories: ONE DCOP object (4 variables, "
        "chain of 3 constraints) is changed through its public API - a constraint replaced under the same name by any pair / two triple "
        "scopes, added, or deleted - and the pseudo-tree re-built and judged after every step: every sequence of <= 2 (thorough 3) changes. "
        "Non-trivial = cyclic primal "
        "graph (a back edge is needed), or two constraints overlapping on >=2 variables, or >=2 components with an edge, or "
        "more than 50 variables."
    )
    ctx.assumptions = [
        "Constraint graphs are given through Variable/NAryMatrixRelation/UnaryFunctionRelation/constraint_from_str objects of the same tree; only their .dimensions/.name are trusted.",
        "Sizes above 7 variables are a sweep over 9 graph families, not all graphs of that size.",
        "The interpreter's default recursion limit (1000) is in force, as for a user calling the library.",
    ]
    items = [("small", li, idx, ctx.quick) for li in range(len(plan)) for idx in range(NSHARD)]
    # long instances first in the queue (they dominate the wall time), order otherwise rotated by the seed
    big = [("sweep", c) for c in sweeps if c["n"] > 100]
    small = [("sweep", c) for c in sweeps if c["n"] <= 100]
    big.sort(key=lambda it: -it[1]["n"])
    items += [("history", 2 if ctx.quick else 3, idx) for idx in range(NSHARD)]
    ctx.pmap(shard, big + ctx.rotate(items + small))


def replay(case):
    if "history" in case:
        part = Part()
        hist = [tuple(tuple(x) if isinstance(x, list) else x for x in o) for o in case["history"]]
        ok, model = hist_run(hist, part)
        print("final constraints:", model, "ok" if ok else "MISMATCH")
        for v in part.violations:
            print(v["key"], "::", v["what"][:600])
        return bool(part.violations)
    part = Part()
    print("case:", describe(case) if "family" in case or case["n"] <= 7 else case.get("family"))
    call = prepare(case)
    try:
        obs = observe(call())
        for nm in obs["nodes"][:12]:
            print(" ", nm, obs["rel"][nm], "constraints", obs["cons"][nm])
    except Exception as e:
        print("  raised", type(e).__name__, str(e)[:100], "->", crash_key(e))
    evaluate(case, part, selfcheck=False)
    for v in part.violations:
        print(v["key"], "::", v["what"][:600])
    return bool(part.violations)
