"""C21 An agent runs its computations on a single thread, one call at a time (THRX monitor).

The executions are those of C22 (orchestrated DPOP solve under the cooperative scheduler, deviation-bounded) plus an
A-DSA family (periodic actions). A monitor wraps start / on_message / pause of every computation, the periodic
callbacks handed to Agent.set_periodic_action and the callbacks handed to Discovery.subscribe_*; each invocation
records (hosting agent, kind, executing controlled thread, callbacks of that agent already active).
"""
from vf.checks import c22, rt_common
from vf.core import gen, thrx
from vf.core.runner import Part


def instances(tier):
    jobs = [j for j in c22.instances(tier) if "mapping" in j]
    q = tier == "quick"
    if q:
        jobs = [j for i, j in enumerate(jobs) if i % 3 == 0]
    B = gen.T3_BIN
    # A-DSA: periodic actions; stop_cycle makes it terminate
    spec = {"vars": {"v0": [0, 1], "v1": [0, 1]}, "cons": [{"name": "c0", "scope": ["v0", "v1"], "table": B[2]}], "mode": "min"}
    for mapping in ({"a0": ["v0"], "a1": ["v1"]}, {"a0": ["v0", "v1"], "a1": []}):
        jobs.append({"spec": spec, "agents": ["a0", "a1"], "mapping": mapping, "algo": "adsa", "params": {"stop_cycle": 3, "period": 0.1}, "timeout": 10})
    # a run that does NOT end by itself: the orchestrator's timeout timer fires and stops the agents
    jobs.append({"spec": spec, "agents": ["a0", "a1"], "mapping": {"a0": ["v0"], "a1": ["v1"]}, "algo": "dsa", "params": {}, "timeout": 0.3})
    # resilient runs: every agent hosts a replication computation whose discovery callback (subscribe_all_agents) fires for
    # every agent that registers or leaves, including during the stop phase
    spec3 = {"vars": {f"v{i}": [0, 1] for i in range(3)}, "cons": [{"name": "c0", "scope": ["v0", "v1"], "table": B[2]}, {"name": "c1", "scope": ["v1", "v2"], "table": B[4]}], "mode": "min"}
    jobs.append({"spec": spec3, "agents": ["a0", "a1", "a2"], "mapping": {"a0": ["v0"], "a1": ["v1"], "a2": ["v2"]}, "algo": "dsa", "params": {"stop_cycle": 3}, "timeout": 10, "replication": 2})
    if not q:
        jobs.append({"spec": spec3, "agents": ["a0", "a1", "a2"], "mapping": {"a0": ["v0"], "a1": ["v1"], "a2": ["v2"]}, "algo": "dsa", "params": {}, "timeout": 0.5, "replication": 1})
    return jobs


def run_job(args):
    job, bound = args
    part = Part()
    undo = thrx.install()
    mon_holder = {}
    try:
        with rt_common.sandbox():
            base = rt_common.solve_scenario(job)

            def scenario(sched):
                mon = rt_common.Monitor()
                mon.install()
                mon_holder["m"] = mon
                try:
                    return base(sched)
                finally:
                    pass

            def on_exec(choices, sched, result, outcome):
                mon = mon_holder.pop("m")
                mon.uninstall()
                part.count("evaluations")
                part.count("traces")
                part.count("transitions", outcome["points"])
                for k, v in mon.calls.items():
                    part.count("calls_" + k, v)
                if outcome["abort"] and outcome["abort"][0] == "divergence":
                    raise RuntimeError("replay divergence " + str(outcome["abort"]))
                seen = set()
                for b in mon.bad:
                    kind, agent, what, thread = b[0], b[1], b[2], b[3]
                    ck = what.split(":")[0]
                    tech = "technical" if agent == "orchestrator" else "agent"
                    key = f"C21|{kind}|host={tech}|cb={ck}|thread={'MainThread' if thread == 'MainThread' else ('timer' if thread.startswith('Timer') else 'other-agent-thread')}"
                    if key in seen:
                        continue
                    seen.add(key)
                    part.violation(key, f"{job['algo']} agents={job['agents']} dist={job.get('mapping')}: {what} of agent {agent} executed on thread {thread}" + (f" while {b[4]} active" if kind == "concurrent" else ""), {"job": job, "choices": choices})
                part.outcome((repr(job.get("mapping")), tuple(sorted(seen)), result and result["status"]))
                if any(choices):
                    part.nontriv((repr(job), tuple(choices)))
                if part.counters["evaluations"] == 2:
                    part.sample({"job": job, "choices": choices[:40], "calls": dict(mon.calls), "bad": [list(map(str, b)) for b in mon.bad[:3]]}, cap=1)

            ex, nodes = thrx.explore(scenario, bound, on_exec, horizon=60.0, policy=job.get("policy", "fair"))
            if job.get("policy"):
                part.count("executions_under_policy_" + job["policy"].replace(":", "_"), ex)
            part.count("states", nodes + 1)
    finally:
        if "m" in mon_holder:
            mon_holder["m"].uninstall()
        thrx.uninstall(undo)
    return part


def run(ctx):
    ctx.level = "model_checking"
    jobs = instances(ctx.tier)
    # bound 2 only for the 2-variable DPOP instances: an A-DSA / replication / timeout run has thousands of scheduling points, two
    # deviations there are millions of executions (measured: > 100 core-minutes per instance without finishing)
    items = [(j, 1 if (ctx.quick or len(j["spec"]["vars"]) > 2 or j["algo"] != "dpop") else 2) for j in jobs]
    for j in jobs:
        for pol in (c22.POLICIES_QUICK if ctx.quick else c22.POLICIES_THOROUGH):
            items.append((dict(j, policy=pol), 0 if (ctx.quick or len(j["spec"]["vars"]) > 2) else 1))  # thorough: single deviations on the 2-variable instances
    ctx.rule = (
        "stateless deviation-bounded exploration (fair default schedule + every schedule with <= 1 deviation; thorough: <= 2 on the "
        "2-variable DPOP instances; plus the default execution - thorough: and every single deviation on the 2-variable instances - of other default schedules: most-recently-run thread first, by thread name, a slow orchestrator / agent thread) of the REAL orchestrated run in thread mode (DPOP family of C22 with explicit mappings, plus A-DSA with "
        "periodic actions); in every execution a monitor checks for every start / on_message / pause of every computation, every periodic "
        "action and every discovery callback that the executing controlled thread is the hosting agent's thread and that no other callback "
        "of that agent is active. states = schedule-tree nodes, transitions = scheduling points, traces = executions; the evidence lists the "
        "number of monitored calls per kind (calls_*)"
    )
    ctx.assumptions = [
        "Scheduling points at synchronisation operations only; the monitor sees the structural cause (a callback executing on a foreign thread / overlapping callbacks), not data races inside a statement.",
    ]
    ctx.pmap(run_job, items)
    for k in ("calls_start", "calls_on_message"):
        if not ctx.part.counters.get(k):
            from vf.core.runner import HarnessError

            raise HarnessError(f"monitor saw no {k}: the exploration is vacuous")


def replay(case):
    part = run_job((case["job"], 0)) if not any(case["choices"]) else None
    job, choices = case["job"], case["choices"]
    undo = thrx.install()
    try:
        with rt_common.sandbox():
            mon = rt_common.Monitor()
            mon.install()
            try:
                sched, result, outcome = thrx.execute(rt_common.solve_scenario(job), choices, horizon=60.0, policy=job.get("policy", "fair"))
            finally:
                mon.uninstall()
    finally:
        thrx.uninstall(undo)
    for b in mon.bad[:10]:
        print("BAD", b)
    print("calls", mon.calls, "result", result and result["status"])
    return bool(mon.bad)
