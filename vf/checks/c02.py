"""C02 SyncBB finds the optimum of every binary-constraint DCOP (netx).

Per instance: the real ordered graph, the real SyncBB computations, ALL start orders and per-channel-FIFO delivery
orders (a single token circulates: the freedom is the start order and whether the token arrives before or after a start,
in which case the real on_message buffering path is exercised); end-condition on every maximal path vs brute force.
"""
import itertools

from vf.checks import ls_common
from vf.core import gen, netx
from vf.core.runner import Part


class SyncBBSpec(netx.Spec):
    def __init__(self, spec):
        self.spec = spec
        self.mode = spec.get("mode", "min")
        self.opt, self.args = gen.brute_force(spec)

    def canon_extra(self, world):
        return tuple(sorted(set(world.finished)))

    def feats(self):
        f = [self.mode, f"n{len(self.spec['vars'])}"]
        if any(len(c["scope"]) == 1 for c in self.spec["cons"]):
            f.append("unary")
        constrained = {v for c in self.spec["cons"] for v in c["scope"]}
        if len(constrained) < len(self.spec["vars"]):
            f.append("free-var")
        if len(gen.components(self.spec)) > 1:
            f.append("disconnected")
        names = sorted(self.spec["vars"])
        linked = {frozenset(c["scope"]) for c in self.spec["cons"] if len(c["scope"]) == 2}
        if any(frozenset((names[i], names[j])) in linked for i in range(len(names)) for j in range(i + 2, len(names))):
            f.append("non-adjacent-constraint")
        return "+".join(f)

    def check_state(self, world, event, report):
        if world.exception is not None:
            ev, et, msg, where = world.exception
            report(f"C02|handler-raised|{et}|{netx.site(where)}|{self.feats()}", f"DCOP {self.spec}: event {ev} raised {et}: {msg} at {where}")

    def check_end(self, world, report):
        if world.exception is not None:
            return
        names = sorted(self.spec["vars"])
        notfin = [n for n in names if n not in world.finished]
        if notfin:
            pending = {f"{s}->{d}": len(q) for (s, d), q in world.chans.items()}
            report(f"C02|no-termination|{self.feats()}", f"DCOP {self.spec}: quiescent but {notfin} never reported finished; pending {pending}; undeliverable {[(s, d) for s, d, _ in world.undeliverable]}")
            return
        a = {n: world.comps[n].current_value for n in names}
        if any(a[n] is None or a[n] not in self.spec["vars"][n] for n in names):
            report(f"C02|value-unset-at-termination|{self.feats()}", f"DCOP {self.spec}: values at termination {a}")
            return
        cost = gen.ref_cost(self.spec, a)
        if not gen.close(cost, self.opt):
            report(f"C02|not-optimal|{self.feats()}", f"DCOP {self.spec}: values at termination {a} cost {cost}, optimum is {self.opt} at {self.args[:2]}")


def explore(spec, part):
    world, shared, _ = ls_common.build_world(spec, "syncbb", {})
    sp = SyncBBSpec(spec)
    ex = netx.Explorer(sp, shared=shared)

    def report(key, what, w, hist):
        part.violation(key, what, {"spec": spec, "history": netx.unroll(hist)})

    st = ex.run(world, report)
    for k in ("states", "transitions", "traces", "choice_points", "revisits"):
        part.count(k, st[k])
    part.maxi("depth", st["max_depth"])
    part.count("evaluations")
    part.outcome((repr(spec), tuple(sorted(ex.end_digests))))
    if spec["cons"] and len(sp.args) < len(list(gen.assignments(spec))):
        part.nontriv(repr(spec))
    if st["states"] > 30:
        part.sample({"spec": spec, "states": st["states"], "traces": st["traces"]}, cap=2)


def instances(tier):
    q = tier == "quick"
    bin01 = list(gen.tables_01(2, 2))
    bin013 = list(gen.tables_01(2, 2, values=(0, 1, 3)))
    menu = [gen.T3_BIN[i] for i in (0, 2, 4, 5)]
    for mode in ("min", "max"):
        yield {"vars": {"v0": [0, 1]}, "cons": [], "mode": mode}
        yield {"vars": {"v0": [0, 1], "v1": [0, 1]}, "cons": [], "mode": mode}
        for t in bin013:
            yield {"vars": {"v0": [0, 1], "v1": [0, 1]}, "cons": [{"name": "c0", "scope": ["v0", "v1"], "table": t}], "mode": mode}
        # names whose lexical order is the algorithm's order
        yield {"vars": {"z": [0, 1], "a": [0, 1]}, "cons": [{"name": "c0", "scope": ["z", "a"], "table": gen.T3_BIN[2]}], "mode": mode}
        yield {"vars": {"v0": [0, 1, 2], "v1": [0, 1, 2]}, "cons": [{"name": "c0", "scope": ["v0", "v1"], "table": ls_common.T3x3}], "mode": mode}
        names = ["v0", "v1", "v2"]
        pairs = list(itertools.combinations(names, 2))
        for r in range(0, 4):
            for edges in itertools.combinations(pairs, r):
                tabs_iter = itertools.product(menu[:3] if q else menu, repeat=r)
                for tabs in tabs_iter:
                    yield {"vars": {v: [0, 1] for v in names}, "cons": [{"name": f"c{i}", "scope": list(e), "table": t} for i, (e, t) in enumerate(zip(edges, tabs))], "mode": mode}
        # the 3-chain with ALL {0,1,2}-valued tables on both constraints (bound / pruning arithmetic), plus a {0..3} menu
        t012 = list(gen.tables_01(2, 2, values=(0, 1, 2)))
        m3 = [[[2, 3], [3, 3]], [[1, 0], [2, 2]], [[3, 0], [1, 2]], [[0, 3], [2, 1]]]
        chain_tabs = [(a, b) for a in t012 for b in t012 if (not q or (t012.index(a) + t012.index(b)) % 2 == 0)] + [(a, b) for a in m3 for b in m3]
        for a, b in chain_tabs:
            yield {"vars": {v: [0, 1] for v in names}, "cons": [{"name": "c0", "scope": ["v0", "v1"], "table": a}, {"name": "c1", "scope": ["v1", "v2"], "table": b}], "mode": mode}
        if True:
            names4 = ["v0", "v1", "v2", "v3"]
            for edges in ([("v0", "v1"), ("v1", "v2"), ("v2", "v3")], [("v0", "v3"), ("v1", "v2")], [("v0", "v2"), ("v1", "v3"), ("v0", "v1")]):
                for tabs in itertools.product(menu[:2] if q else menu, repeat=len(edges)):
                    yield {"vars": {v: [0, 1] for v in names4}, "cons": [{"name": f"c{i}", "scope": list(e), "table": t} for i, (e, t) in enumerate(zip(edges, tabs))], "mode": mode}


def shard(args):
    idx, n, tier = args
    part = Part()
    for i, spec in enumerate(instances(tier)):
        if i % n == idx:
            explore(spec, part)
    return part


def run(ctx):
    ctx.level = "model_checking"
    ctx.rule = (
        "explicit-state search of the real SyncBB computations (real ordered graph) over a virtual per-channel-FIFO network: for every "
        "binary DCOP of the family (1-3 variables quick / up to 4 thorough, every set of binary constraints incl. none / disconnected / "
        "non-adjacent in the lexical order, all 0/1 tables ({0,1,3} thorough) for the pair, table menus beyond, 3-valued domains, min "
        "and max) ALL start orders and delivery interleavings with state caching; on every maximal path: every computation reported "
        "finished and the values held form a brute-force-optimal assignment. evaluations = instances; non-trivial = a sub-optimal "
        "assignment exists"
    )
    ctx.assumptions = ["Network model: one FIFO channel per ordered pair of computations.", "State merging by canonical form."]
    n = 48
    ctx.pmap(shard, ctx.rotate([(i, n, ctx.tier) for i in range(n)]))


def replay(case):
    spec = case["spec"]
    found = []
    world, shared, _ = ls_common.build_world(spec, "syncbb", {})
    sp = SyncBBSpec(spec)
    log = []

    def observe(w, ev):
        log.append((ev, {n: c.current_value for n, c in w.comps.items()}, list(w.finished), w.exception))
        sp.check_state(w, ev, lambda k, what: found.append((k, what)))

    w = netx.replay(world, sp, case["history"], observe)
    if not netx.enabled_events(w, sp):
        sp.check_end(w, lambda k, what: found.append((k, what)))
    for e in log:
        print(e)
    for k, what in found:
        print("FOUND", k, "::", what)
    return bool(found)
