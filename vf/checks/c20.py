"""C20 Discovery views converge to the directory for subscribed items (netx over operations + deliveries).

Real Directory + DirectoryComputation and 2 (thorough 3) real Discovery instances whose DiscoveryComputations share the
virtual per-channel-FIFO network. Explored: every sequence of <= N discovery operations (issued when their documented
precondition holds in issue order) interleaved with EVERY delivery order of the discovery messages; state caching.
Oracle at every quiescent state (no message in flight): for every agent and every item it is still subscribed to, its
local view equals the directory's, and folding the callback events it received yields the same value.
"""
import itertools

from vf.core import netx
from vf.core.runner import Part

AGENTS2 = ["a1", "a2"]
AGENTS3 = ["a1", "a2", "a3"]


class Cb:
    """Subscription callback: records the last event per (agent, kind, item) in the current world's monitor."""

    def __init__(self, owner, kind, item, tag=1):
        self.owner, self.kind, self.item, self.tag = owner, kind, item, tag

    def __call__(self, evt, name, value, *rest):
        netx.CUR.mon.setdefault("cb", {})[(self.owner, self.kind, self.item)] = (evt, name, value)
        netx.CUR.mon["ncb"] = netx.CUR.mon.get("ncb", 0) + 1

    def __eq__(self, other):
        return isinstance(other, Cb) and (self.owner, self.kind, self.item, self.tag) == (other.owner, other.kind, other.item, other.tag)

    def __hash__(self):
        return hash((self.owner, self.kind, self.item, self.tag))

    def __deepcopy__(self, memo):
        return self


def build(agents, preregistered=False):
    from pydcop.infrastructure.discovery import Directory, Discovery

    world = netx.World()
    netx.CUR = world
    dd = Discovery("orchestrator", "addr_orchestrator")
    directory = Directory(dd)
    dd.use_directory("orchestrator", "addr_orchestrator")
    world.add(directory.directory_computation, hooks=())
    world.add(dd.discovery_computation, hooks=())
    world.mon["dir"] = "_discovery_orchestrator"
    for a in agents:
        d = Discovery(a, "addr_" + a)
        d.use_directory("orchestrator", "addr_orchestrator")
        world.add(d.discovery_computation, hooks=())
    for c in world.comps.values():
        c.start()
        world.started.append(c.name)
    world.mon["ref"] = {"hosted": {}, "replicas": [], "subs": [], "agents": [], "nops": 0, "unsubbed": []}
    if preregistered:
        # start from a non-initial state: every agent has registered and the directory knows it (deterministic drain)
        from vf.core import choice as choice_mod

        sp = DiscSpec(agents, [], 0)
        world.mon["_spec"] = sp
        for a in agents:
            disc(world, a).register_agent(a, "addr_" + a)
            world.mon["ref"]["agents"].append(a)
        while True:
            evs = netx.enabled_events(world, sp)
            if not evs:
                break
            netx.apply_event(world, evs[0], sp, choice_mod.Controller())
    return world


def disc(world, agent):
    return world.comps["_discovery_" + agent].discovery


def directory_of(world):
    return world.comps["_directory"].directory


class DiscSpec(netx.Spec):
    def __init__(self, agents, comps, max_ops, with_unreg_agent=False, only=None):
        self.agents, self.cnames, self.max_ops = agents, comps, max_ops
        self.with_unreg_agent = with_unreg_agent
        self.only = only  # optional restriction of the operation kinds (keeps the 3-agent plan small)

    def canon_extra(self, world):
        m = world.mon
        return (sorted(m["ref"]["hosted"].items()), sorted(m["ref"]["replicas"]), sorted(m["ref"]["subs"]), sorted(m["ref"]["agents"]), m["ref"]["nops"], sorted(m["ref"]["unsubbed"]), sorted(m["ref"].get("last_host", {}).items()), sorted(m["ref"].get("left", [])), sorted(m["ref"].get("at_sub", {}).items()), sorted(m["ref"].get("reregistered", [])), sorted(m["ref"].get("two", [])), sorted(m["ref"].get("had_two", [])),
                sorted((k, v) for k, v in m.get("cb", {}).items()))

    def extra_events(self, world):
        ref = world.mon["ref"]
        if ref["nops"] >= self.max_ops or world.exception is not None:
            return []
        evs = []
        for x in self.agents:
            if x not in ref["agents"]:
                if x not in ref.get("left", []):  # an agent that left does not come back with the same Discovery object
                    evs.append(("op", x, "regA", x))
                continue
            for c in self.cnames:
                h = ref["hosted"].get(c)
                prev = ref.get("last_host", {}).get(c)
                prev_in_flight = prev is not None and prev != x and (world.chans.get(("_discovery_" + prev, "_directory")) or world.chans.get(("_directory", "_discovery_" + x)))
                if h is None and not prev_in_flight:
                    # re-hosting goes through the directory: a new host registers a computation only once the former host's
                    # messages have reached the directory (the protocol carries no version numbers)
                    evs.append(("op", x, "regC", c))
                elif h == x:
                    evs.append(("op", x, "unregC", c))
                if (c, x) in [tuple(r) for r in ref["replicas"]]:
                    evs.append(("op", x, "unregR", c))
                elif h != x and h is not None and self._host_seen(world, x, c) == h:
                    # documented precondition of register_replica: the computation is known (locally) and hosted elsewhere. An
                    # agent only takes a replica on request of the current owner, i.e. causally after the owner's registration:
                    # it knows the *current* host (a stale local entry of a former host does not count)
                    evs.append(("op", x, "regR", c))
                for kind in ("C", "R"):
                    if (x, kind, c) in [tuple(s) for s in ref["subs"]]:
                        evs.append(("op", x, "unsub" + kind, c))
                        # a second callback on the same subscription, and the removal of the FIRST callback only (the agent stays
                        # subscribed through the other one)
                        two = [x, kind, c] in ref.get("two", [])
                        if not two and [x, kind, c] not in ref.get("had_two", []):
                            evs.append(("op", x, "sub2" + kind, c))
                        elif two:
                            evs.append(("op", x, "unsub1" + kind, c))
                    elif kind == "C" or self._knows(world, x, c) or (x, "C", c) in [tuple(s_) for s_ in ref["subs"]]:
                        # replicas can only be recorded for a computation the agent knows: subscribing to the replicas of a
                        # computation presupposes knowing it (as ResilientAgent / UCSReplication do)
                        evs.append(("op", x, "sub" + kind, c))
            for y in self.agents:
                if y != x:
                    if (x, "A", y) in [tuple(s) for s in ref["subs"]]:
                        evs.append(("op", x, "unsubA", y))
                    else:
                        evs.append(("op", x, "subA", y))
            if self.with_unreg_agent and not any(h == x for h in ref["hosted"].values()) and not any(r[1] == x for r in ref["replicas"]):
                evs.append(("op", x, "unregA", x))
        if self.only is not None:
            evs = [e for e in evs if e[2] in self.only]
        return evs

    def _host_seen(self, world, x, c):
        try:
            return disc(world, x).computation_agent(c)
        except Exception:  # noqa: UnknownComputation
            return None

    def _knows(self, world, x, c):
        try:
            disc(world, x).computation_agent(c)
            return True
        except Exception:  # noqa: UnknownComputation
            return False

    def apply_extra(self, world, event):
        _, x, op, arg = event
        ref = world.mon["ref"]
        ref["nops"] += 1
        d = disc(world, x)
        if op == "regA":
            d.register_agent(x, "addr_" + x)
            ref["agents"].append(x)
        elif op == "unregA":
            d.unregister_agent(x)
            ref["agents"].remove(x)
            ref.setdefault("left", []).append(x)
            # the directory forgets the subscriptions of an agent that un-registers
            for sub in [s_ for s_ in ref["subs"] if s_[0] == x]:
                ref["subs"].remove(sub)
                if sub in ref.get("two", []):
                    ref["two"].remove(sub)
                if sub not in ref["unsubbed"]:
                    ref["unsubbed"].append(sub)
                world.mon.get("cb", {}).pop(tuple(sub), None)
        elif op == "regC":
            d.register_computation(arg, x, "addr_" + x)
            if ref.get("last_host", {}).get(arg) is not None and arg not in ref.setdefault("reregistered", []):
                ref["reregistered"].append(arg)
            ref["hosted"][arg] = x
            ref.setdefault("last_host", {})[arg] = x
        elif op == "unregC":
            d.unregister_computation(arg, x)
            ref["hosted"][arg] = None
            # a host that publishes the removal of its own computation is unsubscribed from it by the implementation
            # ("we must unsubscribe first, so that we don't get a notification from the directory")
            if [x, "C", arg] in ref["subs"]:
                ref["subs"].remove([x, "C", arg])
                if [x, "C", arg] in ref.get("two", []):
                    ref["two"].remove([x, "C", arg])
                if [x, "C", arg] not in ref["unsubbed"]:
                    ref["unsubbed"].append([x, "C", arg])
                world.mon.get("cb", {}).pop((x, "C", arg), None)
        elif op == "regR":
            d.register_replica(arg, x)
            ref["replicas"].append([arg, x])
        elif op == "unregR":
            d.unregister_replica(arg, x)
            ref["replicas"].remove([arg, x])
        elif op == "subC":
            ref.setdefault("at_sub", {})[f"{x}:C:{arg}"] = self._knows(world, x, arg)
            d.subscribe_computation(arg, Cb(x, "C", arg))
            ref["subs"].append([x, "C", arg])
        elif op == "unsubC":
            d.unsubscribe_computation(arg)
            ref["subs"].remove([x, "C", arg])
            if [x, "C", arg] in ref.get("two", []):
                ref["two"].remove([x, "C", arg])
            if [x, "C", arg] not in ref["unsubbed"]:
                ref["unsubbed"].append([x, "C", arg])
            world.mon.get("cb", {}).pop((x, "C", arg), None)
        elif op in ("sub2C", "sub2R"):
            k = op[-1]
            (d.subscribe_computation if k == "C" else d.subscribe_replica)(arg, Cb(x, k, arg, 2))
            ref.setdefault("two", []).append([x, k, arg])
            ref.setdefault("had_two", []).append([x, k, arg])
        elif op in ("unsub1C", "unsub1R"):
            k = op[-1]
            (d.unsubscribe_computation if k == "C" else d.unsubscribe_replica)(arg, Cb(x, k, arg, 1))
            ref["two"].remove([x, k, arg])
        elif op == "subR":
            d.subscribe_replica(arg, Cb(x, "R", arg))
            ref["subs"].append([x, "R", arg])
        elif op == "unsubR":
            d.unsubscribe_replica(arg)
            ref["subs"].remove([x, "R", arg])
            if [x, "R", arg] in ref.get("two", []):
                ref["two"].remove([x, "R", arg])
            if [x, "R", arg] not in ref["unsubbed"]:
                ref["unsubbed"].append([x, "R", arg])
            world.mon.get("cb", {}).pop((x, "R", arg), None)
        elif op == "subA":
            d.subscribe_agent(arg, Cb(x, "A", arg))
            ref["subs"].append([x, "A", arg])
        elif op == "unsubA":
            d.unsubscribe_agent(arg)
            ref["subs"].remove([x, "A", arg])
            if [x, "A", arg] not in ref["unsubbed"]:
                ref["unsubbed"].append([x, "A", arg])
            world.mon.get("cb", {}).pop((x, "A", arg), None)

    def check_state(self, world, event, report):
        if world.exception is not None:
            ev, et, msg, where = world.exception
            opk = ev[2] if ev[0] == "op" else ev[0]
            report(f"C20|raised|{et}|{netx.site(where)}|during={opk}", f"history raised at {ev}: {et}: {msg} at {where}; ops so far {self.describe(world)}")
            return
        if world.chans or any(world.front.values()):
            return
        self.check_quiescent(world, report)

    def describe(self, world):
        return world.mon["ref"]

    def check_quiescent(self, world, report):
        from pydcop.infrastructure.discovery import UnknownAgent, UnknownComputation

        ref = world.mon["ref"]
        dd = disc(world, "orchestrator")

        def view_c(d, c):
            try:
                return d.computation_agent(c)
            except UnknownComputation:
                return None

        def view_r(d, c):
            # replica_agents() raises UnknownComputation while the computation itself is not known locally (a replica subscriber
            # need not subscribe to the computation): the replica table is read directly in that case
            try:
                return set(d.replica_agents(c))
            except UnknownComputation:
                return set(d._replicas_data.get(c, ()))

        def view_a(d, a):
            try:
                return d.agent_address(a)
            except UnknownAgent:
                return None

        for x, kind, item in [tuple(s) for s in ref["subs"]]:
            d = disc(world, x)
            if kind == "C":
                mine, theirs = view_c(d, item), view_c(dd, item)
                if mine != theirs:
                    stale = "stale-host" if mine is not None and theirs is None else ("missing" if mine is None else "wrong-host")
                    resub = "after-resubscription" if [x, "C", item] in ref["unsubbed"] else "first-subscription"
                    report(f"C20|view-differs|computation|{stale}|{resub}", f"quiescent: {x} sees computation {item} on {mine}, the directory on {theirs}; model {ref}")
                    return
                last = world.mon.get("cb", {}).get((x, "C", item))
                host = ref["hosted"].get(item)
                if host != x and last is not None:
                    folded = last[2] if last[0] == "computation_added" else None
                    if folded != mine:
                        report("C20|callbacks-do-not-fold-to-view|computation", f"quiescent: {x}'s callbacks for computation {item} end with {last} but its view is {mine}; model {ref}")
                        return
                if host != x and last is None and mine is not None and not ref.get("at_sub", {}).get(f"{x}:C:{item}"):
                    report("C20|callback-not-fired|computation", f"quiescent: {x} sees computation {item} on {mine} but its callback never fired; model {ref}")
                    return
            elif kind == "R":
                if ref["hosted"].get(item) is None or view_c(d, item) is None:
                    continue  # replicas are only defined while the computation exists and is known to the agent
                mine, theirs = view_r(d, item), view_r(dd, item)
                if mine != theirs:
                    stale = "stale-replica" if mine - theirs else "missing-replica"
                    resub = "after-resubscription" if [x, "R", item] in ref["unsubbed"] else "first-subscription"
                    if item in ref.get("reregistered", []):
                        # root-cause feature: replica records outlive the computation's registration in the directory, but
                        # publications / notifications that arrive while it is un-registered are dropped
                        resub = "computation-unregistered-and-registered-again"
                    report(f"C20|view-differs|replica|{stale}|{resub}", f"quiescent: {x} sees replicas of {item} on {sorted(mine)}, the directory on {sorted(theirs)}; model {ref}")
                    return
            elif kind == "A":
                mine, theirs = view_a(d, item), view_a(dd, item)
                if (mine is None) != (theirs is None):
                    stale = "stale-agent" if mine is not None else "missing-agent"
                    resub = "after-resubscription" if [x, "A", item] in ref["unsubbed"] else "first-subscription"
                    report(f"C20|view-differs|agent|{stale}|{resub}", f"quiescent: {x} knows agent {item} at {mine}, the directory at {theirs}; model {ref}")
                    return


def explore(agents, comps, max_ops, first_ops, part, with_unreg_agent=False, only=None):
    world = build(agents, preregistered=not with_unreg_agent)
    sp = DiscSpec(agents, comps, max_ops, with_unreg_agent, only)
    ex = netx.Explorer(sp, shared=[], max_states=1500000)
    # the search is sharded by the first operation: only events equal to `first` are taken in the initial state
    ex.first_filter = first_ops

    def report(key, what, w, hist):
        part.violation(key, what, {"agents": agents, "comps": comps, "max_ops": max_ops, "with_unreg_agent": with_unreg_agent, "only": only, "history": netx.unroll(hist)})

    st = ex.run(world, report)
    for k in ("states", "transitions", "traces", "revisits"):
        part.count(k, st[k])
    part.maxi("depth", st["max_depth"])
    part.count("evaluations")
    if ex.capped:
        part.count("capped")
    for dgst in ex.end_digests:
        part.outcome(dgst)
        part.nontriv(dgst)
    if ex.sample_traces:
        part.sample({"agents": agents, "first": first_ops, "trace": ex.sample_traces[-1][:30], "states": st["states"]}, cap=1)


def shard(args):
    agents, comps, max_ops, first, unreg, only = args
    part = Part()
    explore(agents, comps, max_ops, first, part, unreg, only)
    return part


def first_events(agents, comps, unreg, only=None):
    world = build(agents, preregistered=not unreg)
    sp = DiscSpec(agents, comps, 99, unreg, only)
    world.mon["_spec"] = sp
    return [list(e) for e in netx.enabled_events(world, sp)]


def run(ctx):
    ctx.level = "model_checking"
    if ctx.quick:
        plans = [(AGENTS2, ["c1"], 5, False, None), (AGENTS2, ["c1"], 4, True, None), (AGENTS3, ["c1"], 6, False, ["subC", "subR", "regC", "regR"]),
                 # two callbacks on one subscription, one of them removed (7 operations over a restricted alphabet)
                 (AGENTS2, ["c1"], 7, False, ["regC", "subC", "subR", "sub2R", "sub2C", "regR", "unsub1R", "unsub1C", "unregR"])]
    else:
        plans = [(AGENTS2, ["c1"], 7, True, None), (AGENTS2, ["c1", "c2"], 5, False, None), (AGENTS3, ["c1"], 5, False, None),
                 (AGENTS3, ["c1"], 7, False, ["subC", "subR", "regC", "regR", "unregR", "unregC"])]
    items = []
    for agents, comps, n, unreg, only in plans:
        for f in first_events(agents, comps, unreg, only):
            items.append((agents, comps, n, f, unreg, only))
    ctx.rule = (
        "explicit-state search over real Directory / DirectoryComputation / Discovery / DiscoveryComputation objects on a virtual per-channel-FIFO "
        f"network: plans (agents, computations, max operations, agent un-registration allowed) = {plans}; operations per agent: register agent, "
        "register / unregister computation (only while not hosted elsewhere / by its host), publish / unpublish replica, subscribe / unsubscribe "
        "to a computation, to its replicas, to another agent (with callback); EVERY interleaving of the operations with EVERY delivery order of "
        "the discovery messages, state caching; sharded by first operation. Oracle at every quiescent state: each agent's view of every item it "
        "is still subscribed to equals the directory's, the callback events it received fold to that view. evaluations = shards; distinct end states counted as outcomes"
    )
    ctx.assumptions = ["Network model: one FIFO channel per ordered pair of discovery computations.", "State merging by canonical form; the reference model and the last callback event per item are part of the state.",
                       "Illegal calls (two hosts for one computation in issue order, unsubscribing without subscription) are not in the alphabet."]
    ctx.pmap(shard, items)
    if ctx.part.counters.get("capped"):
        ctx.exhaustive = False
        ctx.rule += " CAP: a shard hit the 1500000-state cap."


def replay(case):
    world = build(case["agents"], preregistered=not case.get("with_unreg_agent", False))
    sp = DiscSpec(case["agents"], case["comps"], case["max_ops"], case.get("with_unreg_agent", False))
    found = []

    def observe(w, ev):
        print(ev, {k: len(v) for k, v in w.chans.items()})
        sp.check_state(w, ev, lambda k, what: found.append((k, what)))

    netx.replay(world, sp, case["history"], observe)
    for k, what in found:
        print("FOUND", k, "::", what)
    return bool(found)
