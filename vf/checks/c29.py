"""C29 Batch parameter expansion is an exact cartesian product.

Bounded-exhaustive enumeration (E2) of batch `command_options` definitions -- every tuple of 0..3 (quick) / 0..4
(thorough) parameters whose values are drawn from a fixed menu of scalars, lists and one-level nested dicts -- run
through the real `regularize_parameters`, `parameters_configuration` and `build_option_for_parameters` of
pydcop/commands/batch.py and compared with a 10-line reference cartesian product written here.

A definition is kept as a JSON-able, ORDER PRESERVING structure (the runner dumps cases with sort_keys=True, so a
plain dict would lose the key order under test):
    definition = [[name, spec], ...]      spec = ["s", scalar] | ["l", [values]] | ["d", [[sub_name, spec], ...]]
"""
import hashlib
import itertools
import os
import subprocess
import sys
from collections import Counter

from vf.core.runner import Part

# parameter names by slot; insertion order differs from sorted order ('Z' < 'algo' < 'p10' < 'p2')
NAMES = ["p2", "p10", "algo", "Z"]


def S(v):
    return ["s", v]


def L(*vs):
    return ["l", list(vs)]


def D(*pairs):
    return ["d", [[n, s] for n, s in pairs]]


# one representative per shortcut of the code: str / int / float / falsy scalar (isinstance branches of
# regularize_parameters), single-element list, unsorted list, ints whose str order differs from their numeric order,
# floats, mixed types (sorted() on raw values would raise), 3 and 4 values; nested: 1 or 2 sub-parameters, scalar or
# list, sub-names whose insertion order differs from their sorted order, a sub-name equal to a top-level name, and the
# empty nested dict (nested scalars are longer than one character: a str iterates to its characters).  Lists never contain two values with the same str() (declared illegal, DESIGN 3.x).
SCALARS = [S("dsa"), S(100), S(0.5), S(0)]
LISTS_Q = [L("A"), L("B", "A"), L(10, 9), L(0.2, 0.1), L(3, 4, 5), L("A", 0, 0.5)]
LISTS_T = [L("d", "c", "b", "a"), L(100, 20, 3, "x")]
NESTED_Q = [
    D(("variant", S("dsa"))),
    D(("variant", L("B", "A"))),
    D(("variant", L("B", "A", "C")), ("stop_cycle", S(100))),
    D(("variant", L("B", "A")), ("probability", L(0.2, 0.1))),
    D(),
]
NESTED_T = [
    D(("stop_cycle", S(0))),
    D(("algo", L("y", "x"))),
    D(("variant", L("B", "A", "C")), ("probability", L(0.3, 0.1, 0.2))),
    D(("variant", L("d", "c", "b", "a")), ("p10", S("k2"))),
]


def menu(quick):
    # the whole menu is cheap enough for both tiers; the tiers differ by the number of parameters (3 / 4)
    return SCALARS + LISTS_Q + LISTS_T + NESTED_Q + NESTED_T


def definitions(quick):
    """All definitions, simplest first: 0 parameters (the empty definition), then 1, 2, ... parameters."""
    m = menu(quick)
    for k in range(0, (3 if quick else 4) + 1):
        for specs in itertools.product(m, repeat=k):
            yield [[NAMES[i], specs[i]] for i in range(k)]


# ---------------------------------------------------------------- building the real input
def build_value(spec):
    tag, body = spec
    if tag == "s":
        return body
    if tag == "l":
        return list(body)
    return {n: build_value(s) for n, s in body}


def build_def(defn):
    return {n: build_value(s) for n, s in defn}


def kind_of(spec):
    return {"s": "scalar", "l": "list", "d": "nested"}[spec[0]]


# ---------------------------------------------------------------- reference model
def ref_choices(spec):
    """The choices of one parameter: str() of each listed value; a nested dict is expanded recursively."""
    tag, body = spec
    if tag == "s":
        return [str(body)]
    if tag == "l":
        return [str(v) for v in body]
    return ref_expand(body)


def ref_expand(defn):
    """Cartesian product: one choice per parameter, every combination once (zero parameters: one empty combination)."""
    combos = [[]]
    for name, spec in defn:
        combos = [c + [(name, ch)] for c in combos for ch in ref_choices(spec)]
    return [dict(c) for c in combos]


def ref_options(combo):
    """Multiset of (flag, value) a combination must render: `--name value`, `--name sub:value` for nested ones."""
    exp = Counter()
    for name, v in combo.items():
        if isinstance(v, dict):
            for sub, sv in v.items():
                exp[("--" + str(name), f"{sub}:{sv}")] += 1
        else:
            exp[("--" + str(name), str(v))] += 1
    return exp


def freeze(x):
    """Order-insensitive, hashable form of a combination (values compared through str())."""
    if isinstance(x, dict):
        return ("{}",) + tuple(sorted((str(k), freeze(v)) for k, v in x.items()))
    if isinstance(x, (list, tuple, set)):
        return ("<container>", repr(x))
    return str(x)


# ---------------------------------------------------------------- the code under test
def expand(defn):
    from pydcop.commands.batch import parameters_configuration, regularize_parameters

    reg = regularize_parameters(build_def(defn))
    return reg, parameters_configuration(reg)


def variants(defn):
    """The same definition written differently: (what differs, level, definition)."""
    k = len(defn)

    def put(i, spec):
        return [list(p) for p in defn[:i]] + [[defn[i][0], spec]] + [list(p) for p in defn[i + 1:]]

    for perm in itertools.permutations(range(k)):
        if list(perm) != list(range(k)):
            yield "key-order", "top", [defn[i] for i in perm]
    for i, (name, spec) in enumerate(defn):
        tag, body = spec
        if tag == "l":
            for p in list(itertools.permutations(body))[1:]:
                yield "value-order", "top", put(i, ["l", list(p)])
        elif tag == "d":
            for p in list(itertools.permutations(body))[1:]:
                yield "key-order", "nested", put(i, ["d", [list(x) for x in p]])
            for j, (sub, sspec) in enumerate(body):
                if sspec[0] == "l":
                    for p in list(itertools.permutations(sspec[1]))[1:]:
                        nb = [list(x) for x in body]
                        nb[j] = [sub, ["l", list(p)]]
                        yield "value-order", "nested", put(i, ["d", nb])
    rev = reverse_all(defn)
    if rev != defn:
        yield "input-order", "all", rev


def reverse_all(defn):
    out = []
    for name, (tag, body) in reversed(defn):
        if tag == "l":
            out.append([name, ["l", list(reversed(body))]])
        elif tag == "d":
            out.append([name, ["d", reverse_all(body)]])
        else:
            out.append([name, [tag, body]])
    return out


def short(x, n=400):
    s = repr(x)
    return s if len(s) <= n else s[:n] + "...(%d chars)" % len(s)


class Recorder:
    """Records violations. After FULL occurrences of a key in this shard the rest is only counted (the enumeration is
    simplest-first, so the recorded ones are the smallest; building 10^5 messages would dominate the run time)."""

    FULL = 3

    def __init__(self, part):
        self.part = part
        self.seen = Counter()

    def __call__(self, key, what, defn, **more):
        """`what` is a zero-argument function returning the sentence."""
        self.seen[key] += 1
        if self.seen[key] <= self.FULL:
            self.part.violation(key, what(), dict({"definition": defn, "key": key}, **more))

    def close(self):
        for key, n in self.seen.items():
            if n > self.FULL:
                for v in self.part.violations:
                    if v["key"] == key:
                        v["n"] = v.get("n", 1) + n - self.FULL
                        break


def wrong_set(defn, got):
    """(duplicates, missing, unexpected) of a returned expansion against the reference product."""
    if not isinstance(got, list):
        return None
    gc = Counter(freeze(c) for c in got)
    ec = Counter(freeze(c) for c in ref_expand(defn))
    return sorted(k for k, n in gc.items() if n > 1), sorted(set(ec) - set(gc)), sorted(set(gc) - set(ec))


def blame(defn):
    """Root-cause signature computed from the counterexample: the kinds of parameter whose OWN one-parameter definition
    is already expanded wrongly (or not at all) by the code -- 'empty-dict' for a dict without entries; 'product' when
    every parameter alone is right and only the combination is wrong."""

    def kind(spec):
        return "empty-dict" if spec == ["d", []] else kind_of(spec)

    if len(defn) == 0:
        return "empty-dict"
    if len(defn) == 1:
        return kind(defn[0][1])
    kinds = set()
    for name, spec in defn:
        try:
            bad = wrong_set([[name, spec]], expand([[name, spec]])[1])
        except Exception:
            bad = None
        if bad is None or any(bad):
            kinds.add(kind(spec))
    return "+".join(sorted(kinds)) or "product"


def check_options(defn, combo, origin, part, rec):
    from pydcop.commands.batch import build_option_for_parameters

    part.count("option_strings")
    try:
        s = build_option_for_parameters(combo)
    except Exception as e:  # the combination cannot be rendered at all
        msg = f"{type(e).__name__}: {e}"
        rec(f"options|raised={type(e).__name__}", lambda: f"build_option_for_parameters({combo!r}) raised {msg}", defn)
        return None
    exp = ref_options(combo)
    tokens = s.split() if isinstance(s, str) else None
    if tokens is None or len(tokens) % 2 or any(not t.startswith("--") for t in tokens[0::2]):
        rec(
            "options|malformed",
            lambda: f"build_option_for_parameters({combo!r}) returned {s!r}, not a sequence of '--name value' pairs; "
            f"expected the pairs {sorted(exp.elements())}",
            defn,
        )
        return s
    got = Counter(zip(tokens[0::2], tokens[1::2]))
    if got != exp:
        missing, extra = exp - got, got - exp
        where = "nested" if any(":" in v for _, v in list(missing) + list(extra)) else "plain"
        if missing and not extra:
            cat = "value-not-rendered"
        elif extra and not missing and all(p in exp for p in extra):
            cat = "value-rendered-twice"
        else:
            cat = "wrong-rendering"
        rec(
            f"options|{cat}|param={where}",
            lambda: f"build_option_for_parameters({combo!r}) ({origin} combination of {build_def(defn)!r}) returned {s!r}: "
            f"missing {sorted(missing.elements())} unexpected {sorted(extra.elements())}",
            defn,
        )
    return s


def evaluate(defn, part, rec, verbose=False):
    """All of C29 (within one process) on ONE definition. Returns (observed expansion or exception name, option strings)."""
    from pydcop.commands.batch import parameters_configuration

    d = build_def(defn)
    exp = ref_expand(defn)
    if verbose:
        print("definition         :", d)
        print("expected (as a set):", exp)

    # ---- 1. the expansion is the cartesian product, every combination exactly once
    part.count("expansions")
    try:
        reg, got = expand(defn)
        observed = got
    except Exception as e:
        got = None
        observed = "raised " + type(e).__name__
        msg = f"{type(e).__name__}: {e}"
        rec(
            f"expansion|raised={type(e).__name__}|at=" + blame(defn),
            lambda: f"parameters_configuration(regularize_parameters({d!r})) raised {msg}; expected the {len(exp)} "
            f"combination(s) {short(exp)}",
            defn,
        )
    if verbose:
        print("got                :", observed)
    set_ok = False
    if got is not None and not isinstance(got, list):
        rec("expansion|not-a-list", lambda: f"expansion of {d!r} is a {type(got).__name__}, not a list: {short(got)}", defn)
    elif got is not None:
        part.count("combinations", len(got))
        dup, missing, extra = wrong_set(defn, got)
        if dup:
            rec(
                "expansion|duplicate-combination|at=" + blame(defn),
                lambda: f"expansion of {d!r} lists {len(got)} combinations with duplicates (expected {len(exp)} distinct): {short(got)}",
                defn,
            )
        if missing or extra:
            cat = "missing-combination" if not extra else ("unexpected-combination" if not missing else "wrong-combinations")
            rec(
                f"expansion|{cat}|at=" + blame(defn),
                lambda: f"expansion of {d!r}: {len(got)} combinations, expected {len(exp)}; missing {short(missing, 200)} "
                f"unexpected {short(extra, 200)}; got {short(got)}",
                defn,
            )
        set_ok = not (dup or missing or extra)

    # ---- 2. deterministic order: same list on repeated calls and however the same definition is written
    if isinstance(got, list):
        try:
            again = parameters_configuration(reg)
            fresh = expand(defn)[1]
            part.count("expansions", 2)
            if repr(again) != repr(got) or repr(fresh) != repr(got):
                rec(
                    "order|differs-on-repeated-call",
                    lambda: f"expanding {d!r} again gave {short(again)} / {short(fresh)} after {short(got)}",
                    defn,
                )
        except Exception as e:
            msg = f"{type(e).__name__}: {e}"
            rec(f"order|repeated-call-raised={type(e).__name__}", lambda: f"expanding {d!r} a second time raised {msg}", defn)
        single_failed = False
        for what, level, vdefn in variants(defn):
            part.count("expansions")
            part.count("rewritings")
            vd = build_def(vdefn)
            try:
                gv = expand(vdefn)[1]
            except Exception as e:
                msg = f"{type(e).__name__}: {e}"
                rec(
                    f"expansion|raised={type(e).__name__}|rewritten-{what}",
                    lambda: f"{vd!r} raised {msg} whereas the same definition written {d!r} expands to {short(got)}",
                    defn,
                    variant=vdefn,
                )
                single_failed = True
                continue
            if gv != got:
                if level == "all" and single_failed:
                    continue  # already explained by a one-step rewriting
                single_failed = True
                rec(
                    f"order|depends-on-{what}|level={level}",
                    lambda: f"the same definition written {d!r} and {vd!r} ({what} differs, {level} level) does not expand to "
                    f"the same list: {short(got, 250)} vs {short(gv, 250)}",
                    defn,
                    variant=vdefn,
                )
                if verbose:
                    print("rewritten", vd, "->", gv)

    # ---- 3. each chosen value of a combination is rendered exactly once
    # (the combinations the code returned when they are the right ones, else the reference ones: the rendering is
    # judged on its own even where the expansion fails)
    if set_ok:
        strings = [check_options(defn, combo, "returned", part, rec) for combo in got]
    else:
        strings = [check_options(defn, dict(combo), "reference", part, rec) for combo in exp]
    if verbose:
        print("option strings     :", strings[:8])
    return observed, strings


def nontrivial(defn):
    """A real product: at least two parameters (nested sub-parameters count) offer two or more values."""
    n = 0
    for _, (tag, body) in defn:
        if tag == "l" and len(body) >= 2:
            n += 1
        elif tag == "d":
            n += sum(1 for _, s in body if s[0] == "l" and len(s[1]) >= 2)
    return n >= 2


# ---------------------------------------------------------------- the same order in another interpreter
# "in a deterministic order" is about running the batch several times: the list must not depend on the str hash seed of
# the interpreter. A child interpreter with another PYTHONHASHSEED expands the same definitions; the lists are compared.
CHILD_SEEDS = (11, 12, 13)  # never the runner's own PYTHONHASHSEED (VERIF_SEED mod 8): same comparisons for every VERIF_SEED


def cross_definitions(kmax):
    return [d for d in definitions(kmax >= 3) if len(d) <= kmax] if kmax < 4 else list(definitions(False))


def expansion_text(defn):
    try:
        return repr(expand(defn)[1])
    except Exception as e:
        return "raised " + type(e).__name__


def digest(text):
    return hashlib.blake2b(text.encode(), digest_size=8).hexdigest()


def _child_main(argv):
    """Runs in the child interpreter: one line per definition (digest of the expansion, or the text for `only`)."""
    import pydcop

    kmax, only = int(argv[0]), int(argv[1])
    print(os.path.realpath(os.path.dirname(pydcop.__file__)))
    for i, defn in enumerate(cross_definitions(kmax)):
        if only < 0:
            print(digest(expansion_text(defn)))
        elif i == only:
            print(expansion_text(defn))


def child_lines(hashseed, kmax, only=-1):
    import pydcop

    env = dict(os.environ)
    env["PYTHONHASHSEED"] = str(hashseed)
    r = subprocess.run(
        [sys.executable, "-c", "import sys; from vf.checks import c29; c29._child_main(sys.argv[1:])", str(kmax), str(only)],
        env=env, stdout=subprocess.PIPE, stderr=subprocess.PIPE, text=True,
    )
    lines = r.stdout.splitlines()
    here = os.path.realpath(os.path.dirname(pydcop.__file__))
    if r.returncode != 0 or not lines or lines[0] != here:
        raise RuntimeError(f"child interpreter failed (rc={r.returncode}, tree={lines[:1]}, expected {here}): {r.stderr[-800:]}")
    return lines[1:]


def cross_process(hashseed, kmax, part, rec):
    defs = cross_definitions(kmax)
    theirs = child_lines(hashseed, kmax)
    if len(theirs) != len(defs):
        raise RuntimeError(f"child interpreter answered {len(theirs)} lines for {len(defs)} definitions")
    for i, defn in enumerate(defs):
        part.count("evaluations")
        part.count("cross_interpreter_comparisons")
        mine = expansion_text(defn)
        part.outcome(("x", mine))
        if len(defn) >= 1 and any(s[0] != "s" for _, s in defn):
            part.nontriv(("x", hashseed, repr(defn)))
        if digest(mine) != theirs[i]:
            rec(
                "order|depends-on-hash-seed",
                lambda: f"expansion of {build_def(defn)!r} under PYTHONHASHSEED={os.environ.get('PYTHONHASHSEED')} is {short(mine, 300)} "
                f"but under PYTHONHASHSEED={hashseed} it is {short(child_lines(hashseed, kmax, i)[0], 300)}",
                defn,
                hashseed=hashseed, kmax=kmax, index=i,
            )


def shard(args):
    part = Part()
    rec = Recorder(part)
    if args[0] == "hashseed":
        _, hashseed, kmax = args
        cross_process(hashseed, kmax, part, rec)
    else:
        _, idx, n, quick = args
        for i, defn in enumerate(itertools.islice(definitions(quick), idx, None, n)):
            observed, strings = evaluate(defn, part, rec)
            part.count("evaluations")
            part.count("definitions_%d_params" % len(defn))
            part.maxi("combinations_of_one_definition", len(observed) if isinstance(observed, list) else 0)
            if nontrivial(defn):
                part.nontriv(repr(defn))
            part.outcome(repr((observed, strings)))
            if idx == 0 and i in (0, 40, 90):
                part.sample({"definition": build_def(defn), "expansion": observed, "options": strings[:4]})
    rec.close()
    return part


def run(ctx):
    ctx.level = "exploration"
    m = menu(ctx.quick)
    kmax = 3 if ctx.quick else 4
    xmax = 2 if ctx.quick else 3
    nd = len([s for s in m if s[0] == "d"])
    ctx.rule = (
        f"every definition with 0..{kmax} parameters (names {NAMES[:kmax]}, insertion order != sorted order), each value drawn from "
        f"a menu of {len(m)} specs ({len(SCALARS)} scalars str/int/float/0, {len(m) - len(SCALARS) - nd} lists of 1-4 values incl. "
        f"unsorted, mixed-type and str-order!=numeric-order ones, {nd} one-level nested dicts with 0-2 sub-parameters), simplest "
        "first. For each definition: parameters_configuration(regularize_parameters(d)) must be a duplicate-free list whose set "
        "equals the reference cartesian product (values compared through str()); the list must be identical on repeated calls and "
        "for every rewriting of the same definition (all top-level key orders, all sub-key orders, all orders of each value list "
        "one at a time, everything reversed); build_option_for_parameters of every returned combination (of every reference "
        "combination where the expansion failed) must "
        "render exactly the multiset of '--name value' / '--name sub:value' pairs of the chosen values. In addition every "
        f"definition with 0..{xmax} parameters is expanded in child interpreters with PYTHONHASHSEED {list(CHILD_SEEDS)} and must give "
        "the same list there. Non-trivial = at least two parameters (sub-parameters count) offer two or more values (for the "
        "cross-interpreter cases: a list or nested parameter is present)."
    )
    ctx.assumptions = [
        "Values compare through str() (regularize_parameters documents lists of strings); values contain no whitespace so an option string splits into '--name value' pairs.",
        "Independence of the order from the way the definition is written (key order, value-list order) is taken from the comment in parameters_configuration and tests/unit/test_batch.py::test_params_configuration_order*.",
        "Lists with two values of equal str(), None/bool/empty-string values, empty lists and dicts nested deeper than one level are outside the alphabet.",
    ]
    n = 32 if ctx.quick else 64
    jobs = [("hashseed", s, xmax) for s in CHILD_SEEDS] + [("defs", i, n, ctx.quick) for i in range(n)]
    ctx.pmap(shard, ctx.rotate(jobs))


def replay(case):
    part = Part()
    rec = Recorder(part)
    defn = case["definition"]
    evaluate(defn, part, rec, verbose=True)
    if "hashseed" in case:
        mine = expansion_text(defn)
        theirs = child_lines(case["hashseed"], case["kmax"], case["index"])[0]
        print(f"PYTHONHASHSEED={os.environ.get('PYTHONHASHSEED')}: {mine}")
        print(f"PYTHONHASHSEED={case['hashseed']}: {theirs}")
        if mine != theirs:
            rec("order|depends-on-hash-seed", lambda: "the two interpreters disagree", defn)
    for v in part.violations:
        print(v["key"], "::", v["what"])
    if case.get("key"):
        return any(v["key"] == case["key"] for v in part.violations)
    return bool(part.violations)
