"""One entry per claimed property."""

E2_NOTE = "Trusts the reference model written in the check module and CPython; covers only the stated finite alphabet."


def register_all(reg):
    reg("C31", "seqx", "exploration", "bounded-exhaustive input enumeration vs reference model",
        "Every AgentDef argument combination of the alphabet and every create_agents index kind is executed on the real classes and compared with a reference cost model / an individually built AgentDef; complete within the alphabet.",
        E2_NOTE, "DESIGN.md 3 C31")

    reg("C19", "seqx", "model_checking", "explicit-state BFS over operation histories of the real computation/Agent/Messaging code, canonical-state dedup, reference-list oracle",
        "All histories up to the stated length over receptions from two senders, posts, start, pause, resume and agent-loop steps are executed on the real MessagePassingComputation hosted by a real Agent/Messaging; each state and its drained continuation is compared with a two-list reference model (reception order, posting order).",
        "The agent loop is played by the harness (no thread); only MSG_ALGO environment messages. " + E2_NOTE, "DESIGN.md 3 C19")

    NETX_NOTE = ("Explores the real computation objects under a virtual network with one FIFO channel per ordered pair (more liberal than the real transports); "
                 "bounds: <=3-4 variables, 2-3 values, 2-3 cycles; random draws from finite menus; state merging by canonical form (sorted dicts/sets).")
    reg("C03", "netx", "model_checking", "explicit-state search of the real computations over a virtual FIFO network (all interleavings, start orders, random answers; state caching)",
        "Per small DCOP instance every reachable state of the real MGM/MGM2 computations is visited and every completed cycle boundary is checked against a brute-force reference cost and the exclusive-mover rule.",
        NETX_NOTE, "DESIGN.md 3 C03")
    reg("C04", "netx", "model_checking", "explicit-state search of the real computations over a virtual FIFO network (all interleavings, start orders, random answers; state caching)",
        "Same exploration as C03; at every idle cycle boundary the assignment is checked for 1-optimality by two nested loops over variables and values.",
        NETX_NOTE, "DESIGN.md 3 C04")
