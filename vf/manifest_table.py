"""One entry per claimed property."""

E2_NOTE = "Trusts the reference model written in the check module and CPython; covers only the stated finite alphabet."


def register_all(reg):
    reg("C31", "seqx", "exploration", "bounded-exhaustive input enumeration vs reference model",
        "Every AgentDef argument combination of the alphabet and every create_agents index kind is executed on the real classes and compared with a reference cost model / an individually built AgentDef; complete within the alphabet.",
        E2_NOTE, "DESIGN.md 3 C31")

    reg("C19", "seqx", "model_checking", "explicit-state BFS over operation histories of the real computation/Agent/Messaging code, canonical-state dedup, reference-list oracle",
        "All histories up to the stated length over receptions from two senders, posts, start, pause, resume and agent-loop steps are executed on the real MessagePassingComputation hosted by a real Agent/Messaging; each state and its drained continuation is compared with a two-list reference model (reception order, posting order).",
        "The agent loop is played by the harness (no thread); only MSG_ALGO environment messages. " + E2_NOTE, "DESIGN.md 3 C19")

    NETX_NOTE = ("Explores the real computation objects under a virtual network with one FIFO channel per ordered pair (more liberal than the real transports); "
                 "bounds: <=3-4 variables, 2-3 values, 2-3 cycles; random draws from finite menus; state merging by canonical form (sorted dicts/sets).")
    reg("C03", "netx", "model_checking", "explicit-state search of the real computations over a virtual FIFO network (all interleavings, start orders, random answers; state caching)",
        "Per small DCOP instance every reachable state of the real MGM/MGM2 computations is visited and every completed cycle boundary is checked against a brute-force reference cost and the exclusive-mover rule.",
        NETX_NOTE, "DESIGN.md 3 C03")
    reg("C04", "netx", "model_checking", "explicit-state search of the real computations over a virtual FIFO network (all interleavings, start orders, random answers; state caching)",
        "Same exploration as C03; at every idle cycle boundary the assignment is checked for 1-optimality by two nested loops over variables and values.",
        NETX_NOTE, "DESIGN.md 3 C04")

    reg("C07", "netx", "model_checking", "explicit-state search of the real computations over a virtual FIFO network (all interleavings, start orders, random answers; state caching)",
        "Per small instance and stop_cycle k in {1,2,3} every reachable state of the real MGM, MGM2 and DSA computations is visited; no handler may raise and every quiescent state must have all computations finished, first at cycle k.",
        NETX_NOTE, "DESIGN.md 3 C07")
    reg("C16", "seqx", "exploration", "bounded-exhaustive input enumeration vs reference model",
        "All DCOPs over 1-5 (quick; up to 8 thorough, capped) named variables with every multiset of <=3/<=4 unary..n-ary scopes, built 3x3 ways, are turned into hyper-graph, factor graph and ordered graph by the real builders; nodes, constraints, neighbours, links and next/previous are compared with a reference derived from names and scopes.",
        "n>=6 families are capped at 2-3 constraints; hyper-edge names, ordered-graph node.constraints and neighbors are not compared (the property is silent on them). " + E2_NOTE, "DESIGN.md 3 C16")
    reg("C28", "seqx", "exploration", "bounded-exhaustive input enumeration vs reference model",
        "Every shipped algorithm's declared parameters (plus docstring definitions): all subsets of <=2 (quick) / <=3 (thorough) parameters over 20+-value menus, larger subsets over one value per class, each also with an undeclared name and in both supply orders, through check_param_value, prepare_algo_params, build_with_default_param and (as name:value strings) build_algo_def; keys, types, values and defaults compared with a reference prepare; invalid or unknown entries must be rejected.",
        "Values whose treatment the property leaves open (bool, ' 7 ', 2.5 or '1.5' for an int, bytes) are only type-checked when accepted; duplicate name:value entries are outside the alphabet. " + E2_NOTE, "DESIGN.md 3 C28")

    reg("C01", "netx", "model_checking", "explicit-state search of the real DPOP computations over a virtual FIFO network (all start orders and delivery interleavings, state caching) x bounded-exhaustive instance family",
        "For every DCOP of the small-scope family the real pseudo-tree is built and every reachable state of the real DPOP computations is visited (plus K4 / K4-minus-an-edge with every constraint declaration order under two canonical schedules); every maximal path must end with all computations finished on a brute-force-optimal, complete, in-domain assignment.",
        NETX_NOTE, "DESIGN.md 3 C01")

    reg("C13", "seqx", "exploration", "bounded-exhaustive DCOP/assignment enumeration vs a reference accounting model",
        "All DCOPs with <=3 variables, 0-1 external variable, <=3 rotation-table constraints and per-variable cost functions; solution_cost (method and function) on every complete and incomplete assignment for infinity in {10000, inf}, and assignment_cost with dict/keyword value splits, compared with a reference count/sum.",
        "DCOPs are assembled the YAML-loader way; relation lookup itself is C11/C12's subject. " + E2_NOTE, "DESIGN.md 3 C13")
    reg("C17", "seqx", "exploration", "bounded-exhaustive input enumeration with a reference validator",
        "All labelled constraint graphs up to 6 (quick) / 7 (thorough) variables, all graph+extra-constraint overlays and constraint multisets with unary, duplicate and n-ary scopes, plus size sweeps of 9 families up to 3000 (quick) / 5000 (thorough) variables are built with the real pseudotree.build_computation_graph and every forest is validated (nodes, link consistency, acyclicity, DFS ancestor/back-edge property, per-node constraints, no crash).",
        "Sizes above 7 variables are a family sweep, not all graphs. " + E2_NOTE, "DESIGN.md 3 C17")
    reg("C29", "seqx", "exploration", "bounded-exhaustive input enumeration against a reference cartesian product",
        "All batch parameter definitions with 0-3 (quick) / 0-4 (thorough) parameters over a 21-spec menu (scalars, lists, one-level nested dicts) are expanded by the real regularize_parameters/parameters_configuration and rendered by build_option_for_parameters; the expansion must equal the reference product exactly once, be identical under every rewriting of the definition and under other hash seeds, and render each chosen value exactly once.",
        "Empty lists, None/bool/'' values and dicts nested deeper than one level are outside the alphabet. " + E2_NOTE, "DESIGN.md 3 C29")

    reg("C12", "seqx", "exploration", "bounded-exhaustive input enumeration vs dict reference model",
        "All matrix relations over 0-3 (quick) / 0-4 (thorough) small-domain variables with tables from {0,1,-3,2.5,2^31,+-2^40,inf} (full/two-entry/one-hot families; projections also over all two-valued tables of large near-equal entries, compared exactly): every set_value (list/dict/reversed dict), every projection (each variable, min/max) and every join over 20-24 scope pairs is read back on every assignment against Python sum/min/max.",
        "Dimension order of join/projection results is not judged (scopes are sets in the property); operands are NAryMatrixRelation only. " + E2_NOTE, "DESIGN.md 3 C12")
    reg("C30", "seqx", "exploration", "bounded-exhaustive generator arguments with every random answer enumerated (injected random graphs, scripted draws)",
        "Graph-colouring, Ising and scenario generators are run on every small argument combination with all random graphs on <=4 nodes, all Barabasi-Albert/shuffle answers, scripted randint/uniform vectors and every random.sample answer injected; constraints<->edges, hard/soft tables, Ising form agreement, hosting-exactly-once and removal bookkeeping are checked against a reference model.",
        "Colouring constraint graph compared up to renaming; the hard penalty only has to be one positive constant; beyond 8 soft draws a 4-pattern family is used. " + E2_NOTE, "DESIGN.md 3 C30")

    reg("C06", "seqx", "exploration", "bounded-exhaustive inputs + exhaustive message scripts and random answers on the real DSA computations",
        "All cost vectors over {0,+-1,2.5,2^31,+-2^40,+-inf} for find_optimal, find_arg_optimal, optimal_cost_value and projection (d<=3, 0-2 constraints, 5 own-cost kinds, min/max) against brute force; real DSA, A-DSA and DSA-tuto computations fed every neighbour-value combination for two rounds under every draw answer, each selected value checked against the optimal set.",
        "Cases whose local cost is +inf + -inf are skipped and counted; handler exceptions in the DSA part are notes, not violations. " + E2_NOTE, "DESIGN.md 3 C06")
    reg("C14", "seqx", "exploration", "bounded-exhaustive spec->API->dump->load (string / 1 file / 2-file splits) vs reference model",
        "Every small DCOP of six product families is built through the Python API, dumped with dcop_yaml and re-loaded through every documented entry point and every legal two-file split; domains, variables, all constraint values, capacities, routes and hosting costs are compared with a model computed from the spec.",
        "PyYAML is trusted; splits that violate the documented section order, per-agent default routes, asymmetric routes and variable cost functions (not expressible / not listed by the property) are excluded. " + E2_NOTE, "DESIGN.md 3 C14")
    reg("C26", "seqx", "exploration", "bounded-exhaustive input enumeration vs reference model (3 layers)",
        "All discovery states (<=5 agents, <=6 computations, replica sets <=2-3, departed <=2-3) through the real removal functions; all create_*_constraint inputs over small menus and all setup_repair-generated constraints evaluated on every binary assignment against the defining sums.",
        "Hosting maps enumerated up to agent renaming; the pipeline layer uses dsa loads and an unstarted ResilientAgent; a single repair round. " + E2_NOTE, "DESIGN.md 3 C26")

    reg("C23", "seqx", "exploration", "bounded-exhaustive inputs + enumerated random draws vs set-arithmetic reference",
        "All small graphs (four real graph builders) x 1-4 agents x capacity / hosting / route / hint menus x the 12 shipped methods through distribute() and a slice through the real distribute command, judged against a reference (hosted once, declared agents, must-host for the method documented to honour it, capacity for capacity-aware methods) or ImpossibleDistributionException / timeout.",
        "GLPK_CMD is substituted by a CBC shim from the harness side (no glpsol binary in the sandbox); which methods are capacity-aware / hint-aware is taken from their documentation. " + E2_NOTE, "DESIGN.md 3 C23")
    reg("C24", "seqx", "exploration", "bounded-exhaustive instances vs brute-force optimum over all mappings",
        "Every tiny DCOP shape (<=4 quick / <=5 thorough computations, <=3 agents, <=k non-base profile dimensions of footprint/capacity/hosting/route/load) is distributed by the real oilp_cgdp / ilp_fgdp; the method's own distribution_cost of the result is compared with the minimum over all |A|^|C| mappings passing its hard rules; ImpossibleDistributionException iff none passes.",
        "Trusted base: the CBC shim standing in for GLPK_CMD, CBC optimality, symmetric loads/routes. " + E2_NOTE, "DESIGN.md 3 C24")

    reg("C11", "seqx", "exploration", "bounded-exhaustive relation construction x partial assignment x slicing sequence vs reference function, in sub-processes over 5 hash seeds",
        "Every relation kind over <=4 variables in every variable-list order is evaluated and sliced by every ordered <=3-step sequence; dimensions and all four call forms are compared with a plain-Python model under PYTHONHASHSEED 0,1,2,3,7 in every run.",
        "Quick restricts arity 4 to the expression kind and conditionals to <=3 variables; the documented ZeroAry result of return_neutral=False is accepted. " + E2_NOTE, "DESIGN.md 3 C11")

    reg("C15", "seqx", "exploration", "exhaustive wire / pickle round trip with deep structural comparison, incl. traffic harvested from real runs",
        "Every message class (field-menu products and messages harvested from real runs of the 13 algorithm modules), every ComputationDef of the 4 graph models over all small DCOPs, and AgentDefs are pushed through the real send_msg / do_POST transformation (only the socket is replaced) or pickle and compared field by field, link by link, value by value.",
        "A set decoded as a list is accepted; the socket itself is not exercised; replication and discovery messages come from menus, not harvested. " + E2_NOTE, "DESIGN.md 3 C15")

    THRX_NOTE = ("Real threads under a cooperative scheduler (one baton), virtual time; scheduling points at synchronisation operations only (thread start/exit/join, Event, queue put/get, sleep, timers); "
                 "deviation-bounded, not all interleavings; in-process transport only.")
    reg("C21", "thrx", "model_checking", "stateless deviation-bounded systematic scheduling of the real threaded runtime (cooperative scheduler, virtual time) + callback/thread monitor",
        "Every schedule with <=1 (thorough <=2 on 2-variable instances) deviation from the fair default schedule of the real orchestrated run (DPOP mappings of C22, A-DSA with periodic actions, a run ended by the timeout timer, resilient runs with replication computations), plus the default execution (thorough: and every single deviation on the 2-variable instances) of four other default schedules, is executed; a monitor checks every start / on_message / pause / periodic action / discovery callback for the executing thread and for overlap per agent.",
        THRX_NOTE, "DESIGN.md 3 C21")
    reg("C22", "thrx", "model_checking", "stateless deviation-bounded systematic scheduling of the real threaded runtime (cooperative scheduler, virtual time) x instance/distribution enumeration",
        "For every (small DCOP x agent set x distribution incl. oneagent/adhoc/gh_cgdp outputs) the real run_local_thread_dcop / deploy_computations / run(timeout) sequence is executed under the fair default schedule and every schedule with <=1 deviation (thorough: <=2 on 2-variable instances), plus the default execution (thorough: and every single deviation on the 2-variable instances) of other default schedules (most-recently-run first, by thread name, a slow orchestrator / agent thread); each execution must end OK before the timeout on a complete, brute-force-optimal assignment whose reported cost/violation match the reference accounting.",
        THRX_NOTE, "DESIGN.md 3 C22")

    reg("C18", "thrx", "model_checking", "stateless deviation-bounded systematic scheduling of real threads (cooperative scheduler) with line-level scheduling points in the messaging code (sys.settrace)",
        "A real Agent loop thread, Messaging and InProcessCommunicationLayer with concurrent poster threads (local/remote routes, priority mixes, registration after the posts, post right before clean_shutdown): the default schedule and every schedule with <=2 (small variants) / <=1 (large variants) deviations (thorough: 3 / 2) is executed, preemption possible at every line of post_msg/next_msg/_on_computation_registration/_run/clean_shutdown; exactly-once, per-sender FIFO, priority and shutdown-drain oracles on every execution.",
        THRX_NOTE + " Line-level points only inside the traced messaging functions.", "DESIGN.md 3 C18")

    reg("C27", "thrx", "fault_enumeration", "fault enumeration (every removed-agent subset, and two successive removal events) on the real threaded runtime under a cooperative scheduler, with single schedule / random-answer deviations in the repair window",
        "For every small resilient deployment and every subset of <=k removed agents (k=1 deployments: also every ordered pair of successive single removals; quick: a1 first) the real replication -> removal event(s) -> repair pipeline is executed under the fair default schedule (deep cases: plus every single schedule deviation and every single random-answer deviation inside the repair window); one virtual second after the orchestrator reports the last repair, directory and agents must agree that every computation is hosted by exactly one surviving agent that held its replica, and has been started there.",
        THRX_NOTE + " At most two removal events per run, each within k; ample capacities; A-DSA (thorough also MGM) as non-terminating algorithm.", "DESIGN.md 3 C27")

    reg("C02", "netx", "model_checking", "explicit-state search of the real SyncBB computations over a virtual FIFO network (all start orders and delivery interleavings, state caching) x bounded-exhaustive instance family",
        "For every binary DCOP of the small-scope family the real ordered graph is built and every reachable state of the real SyncBB computations is visited; every maximal path must end with all computations finished and the held values forming a brute-force-optimal assignment.",
        NETX_NOTE, "DESIGN.md 3 C02")

    reg("C08", "netx", "model_checking", "explicit-state search over a virtual FIFO network of probe computations built on the real SynchronousComputationMixin (all interleavings, start orders; state caching) x send-plan enumeration",
        "Every connected graph on <=3 (thorough 4) nodes x every send plan (who sends an algorithm message to which neighbours in even/odd rounds, through post_msg or the returned list) is explored over all delivery and start orders up to a 3-round horizon, plus the real DSA-tuto computations; after every step the rounds must be consecutive, the handed dict must hold exactly the algorithm messages the plan sent for that round, and no ComputationException may escape.",
        NETX_NOTE, "DESIGN.md 3 C08")

    reg("C05", "netx", "model_checking", "explicit-state search of the real (A-)Max-Sum computations over a virtual FIFO network (all interleavings for small instances, canonical schedules beyond; state caching) x unique-optimum instance family",
        "On acyclic instances with a unique brute-force optimum, the real factor and variable computations of synchronous Max-Sum (round horizon) and A-Max-Sum (until quiescence; default and leafs_vars start) with damping 0 / noise 0 are explored; plus a wide table sweep (4-variable chain and star, every triple of a 17-table menu; thorough also the 5-chain) with one in-place canonical execution per instance and algorithm; every maximal path must end on the unique optimum.",
        NETX_NOTE + " Instances beyond the pair (and a slice of the 3-chains) use 4 canonical schedules instead of all interleavings.", "DESIGN.md 3 C05")

    reg("C09", "netx", "model_checking", "explicit-state search of the real DBA computations over a virtual FIFO network (all interleavings, start orders, initial values, tie picks; state caching; delay-bounded for the 5-cycle)",
        "On small CSPs (all {0,infinity} pair tables, graph colouring on chain / triangle, 2-3 colours, max_distance at or above the diameter) every reachable state up to a cycle horizon is visited; the 5-cycle (max_distance = diameter) is explored delay-bounded: a canonical schedule plus every execution with <=2 departures from it, for every initial assignment; inside every finished() notification the values held by all computations must violate no constraint.",
        NETX_NOTE + " Safety property up to a horizon of 3-6 cycles per computation.", "DESIGN.md 3 C09")

    reg("C10", "netx", "model_checking", "explicit-state search of the real computations of every shipped algorithm over a virtual FIFO network with a value_selection / current_value monitor",
        "Every shipped algorithm (incl. gdba variants, A-DSA tick events, Max-Sum with default noise and damping) is run with default parameters on small instances with int / str / 3-valued domains, own costs and isolated variables; 2-valued pairs under all interleavings and random answers, the rest under 3 canonical schedules; every value_selection argument and every current_value after every step must be None or a domain member.",
        NETX_NOTE + " Handler exceptions end a path and are listed in the evidence notes (they are other properties' subject).", "DESIGN.md 3 C10")

    reg("C20", "netx", "model_checking", "explicit-state search over operation sequences interleaved with all delivery orders on the real Directory / Discovery objects (virtual FIFO network, state caching)",
        "Every sequence of <=5 (thorough up to 7) discovery operations of 2 (3) agents on 1-2 computations, interleaved with every delivery order of the discovery messages, is executed on the real Directory, DirectoryComputation, Discovery and DiscoveryComputation objects; (incl. a second callback on a subscription and the removal of one callback only) at every quiescent state each agent's view of every item it is still subscribed to must equal the directory's and its callback events must fold to that view.",
        NETX_NOTE + " A new host registers a computation only once the former host's messages reached the directory (no version numbers in the protocol) and an agent publishes a replica only of a computation whose current host it knows; illegal calls are not in the alphabet.", "DESIGN.md 3 C20")
    reg("C25", "netx", "model_checking", "explicit-state search of the real UCSReplication computations with real Discovery/Directory over a virtual FIFO network (all interleavings for small deployments, canonical schedules beyond; state caching)",
        "For each small deployment (3-4 agents, 1-2 computations each, ample/tight capacities, integer and decimal routes / hosting costs, k=1..3) every agent's replicate(k) and all replication / discovery messages are explored in one process sharing class-level state; on every state the acceptance of a replica is checked against the capacity rule computed from the agent's own replica table, at quiescence termination, distinct non-owner hosts <= k, directory records and real holders are checked; the state graph is kept and every state from which no end state is reachable is reported (livelock); departure runs (one agent leaves at any moment after the first replicate(k), all interleavings) check that the survivors still report done and end with live, distinct, recorded, real replica hosts.",
        NETX_NOTE + " UCSReplication sees a fake agent exposing name, agent_def and computations() only.", "DESIGN.md 3 C25")
