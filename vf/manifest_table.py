"""One entry per claimed property."""

E2_NOTE = "Trusts the reference model written in the check module and CPython; covers only the stated finite alphabet."


def register_all(reg):
    reg("C31", "seqx", "exploration", "bounded-exhaustive input enumeration vs reference model",
        "Every AgentDef argument combination of the alphabet and every create_agents index kind is executed on the real classes and compared with a reference cost model / an individually built AgentDef; complete within the alphabet.",
        E2_NOTE, "DESIGN.md 3 C31")

    reg("C19", "seqx", "model_checking", "explicit-state BFS over operation histories of the real computation/Agent/Messaging code, canonical-state dedup, reference-list oracle",
        "All histories up to the stated length over receptions from two senders, posts, start, pause, resume and agent-loop steps are executed on the real MessagePassingComputation hosted by a real Agent/Messaging; each state and its drained continuation is compared with a two-list reference model (reception order, posting order).",
        "The agent loop is played by the harness (no thread); only MSG_ALGO environment messages. " + E2_NOTE, "DESIGN.md 3 C19")
