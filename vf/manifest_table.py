"""One entry per claimed property."""

E2_NOTE = "Trusts the reference model written in the check module and CPython; covers only the stated finite alphabet."


def register_all(reg):
    reg("C31", "seqx", "exploration", "bounded-exhaustive input enumeration vs reference model",
        "Every AgentDef argument combination of the alphabet and every create_agents index kind is executed on the real classes and compared with a reference cost model / an individually built AgentDef; complete within the alphabet.",
        E2_NOTE, "DESIGN.md 3 C31")
