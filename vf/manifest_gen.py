"""Generates /verif/MANIFEST.json from the table below (single source of truth)."""
import json, os, sys
sys.path.insert(0, os.path.dirname(os.path.dirname(os.path.abspath(__file__))))

ROOT = os.path.dirname(os.path.dirname(os.path.abspath(__file__)))
ALL = ["C%02d" % i for i in range(1, 32)]

# pid -> dict(engine, category, text, note, technique, design, thorough(bool))
CHECKS = {}

def reg(pid, engine, category, technique, text, note, design, thorough=True):
    CHECKS[pid] = dict(engine=engine, category=category, technique=technique, text=text, note=note, design=design, thorough=thorough)

from vf.manifest_table import register_all  # noqa
register_all(reg)

NOT_APPLICABLE = {}

def main():
    checks = []
    for pid in ALL:
        if pid not in CHECKS:
            continue
        c = CHECKS[pid]
        e = {
            "property_id": pid,
            "quick_cmd": f"./check {pid} --tier quick",
            "evidence_file": f"/verif/evidence/{pid}.json",
            "replay_cmd_template": f"./check {pid} --replay {{path}}",
            "engine": c["engine"],
            "level_claimed": {"category": c["category"], "text": c["text"], "design_ref": c["design"]},
            "level_note": c["note"],
            "technique": c["technique"],
        }
        if c["thorough"]:
            e["thorough_cmd"] = f"./check {pid} --tier thorough"
        checks.append(e)
    na = []
    for pid in ALL:
        if pid not in CHECKS:
            na.append({"property_id": pid, "reason": NOT_APPLICABLE.get(pid, "check not built yet in this round; planned in DESIGN.md section 3 (not claimed until the check exists and is silent on the unchanged tree)")})
    man = {
        "version": 1,
        "setup_cmd": "/venv/bin/python -m compileall -q vf >/dev/null && ./selftest/setup_selftest.sh",
        "hooks": {
            "guard": "PYDCOP_VERIF",
            "enable": "no source hook exists: checks rebind module attributes / wrap methods of the code imported from /repo's working tree (editable install, PYTHONPATH=/repo); ./check exports PYDCOP_VERIF=1 for uniformity",
            "baseline_off_cmd": "cd /repo && /venv/bin/python -m pytest -ra -q -p no:cacheprovider --timeout=900 --continue-on-collection-errors",
            "source_commits": [],
            "add_only": True,
        },
        "engines": [
            {"name": "seqx", "path": "vf/core/seqx.py", "kind_free_text": "bounded-exhaustive enumeration of inputs / operation sequences of the real functions against a reference model (E2)", "serves_properties": sorted(p for p, c in CHECKS.items() if c["engine"] == "seqx")},
            {"name": "netx", "path": "vf/core/netx.py", "kind_free_text": "explicit-state search (state caching, canonical hashing) over the real computation objects on a virtual per-channel-FIFO network (E1)", "serves_properties": sorted(p for p, c in CHECKS.items() if c["engine"] == "netx")},
            {"name": "thrx", "path": "vf/core/thrx.py", "kind_free_text": "stateless deviation-bounded systematic scheduling of the real threaded runtime under a cooperative scheduler with virtual time (E3)", "serves_properties": sorted(p for p, c in CHECKS.items() if c["engine"] == "thrx")},
        ],
        "checks": checks,
        "not_applicable": na,
        "notes": "All checks explore the real pyDCOP code imported from /repo's working tree; see DESIGN.md. Known findings: KNOWN_FINDINGS.txt.",
    }
    with open(os.path.join(ROOT, "MANIFEST.json"), "w") as f:
        json.dump(man, f, indent=1)
        f.write("\n")
    print("MANIFEST.json:", len(checks), "checks,", len(na), "not_applicable")

if __name__ == "__main__":
    sys.path.insert(0, ROOT)
    main()
